#!/usr/bin/env python
# Replay of a counterexample found by the solver-based check for C02.
# Runs the *unpatched* MyGrad (PYTHONPATH=/repo/src) on ordinary float64 arrays.
# exit 1 + "REPRODUCED"  : the real library shows the violation
# exit 0 + "NOT-REPRODUCED": it does not (encoding or abstraction was wrong -> harness error)
# exit 3 + "MODEL-MISMATCH": the real library does not compute what was encoded
import sys
import numpy as np
import mygrad as mg
import mygrad.nnet as nnet
from mygrad import Tensor
from mygrad.nnet.activations import *
from mygrad.nnet.layers import *
from mygrad.nnet.losses import *
np.seterr(all="ignore")
# case: b/maximum/(2,),(1,)
x = mg.Tensor(np.array([-1.0, 0.0], dtype=np.float64).reshape((2,)))
y = mg.Tensor(np.array([0.0], dtype=np.float64).reshape((1,)))
out = mg.maximum(x, y)
G_MODEL = {"g_0": -1.0}
seed = np.ones(out.shape)
for idx in np.ndindex(*out.shape):
    seed[idx] = G_MODEL.get('g' + ''.join('_%d' % i for i in idx), 1.0)
out.backward(seed)
grad = y.grad
R = 0.0 if grad is None else float(np.asarray(grad, dtype=float).reshape(-1)[0])
F = 0.0  # reference derivative (true functions, 50 digits)
G = -1.0  # value of the implementation's gradient term as encoded
scale = max(1.0, abs(F), abs(G))
print('d/dy[0]: real library', R, ' reference', F, ' encoded', G)
if not (abs(R - G) <= 1e-6 * scale):
    print('MODEL-MISMATCH'); sys.exit(3)
if abs(R - F) > 1e-9 * scale:
    print('REPRODUCED'); sys.exit(1)
print('NOT-REPRODUCED'); sys.exit(0)
