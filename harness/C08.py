"""C08 — memory guard: arrays in a live graph are read-only, and restored afterwards (DESIGN §3 C08).

(a) lock manager, one inductive step: the real lock_arr_writeability / _release_lock_on_arr_writeability run from a SYMBOLIC
    pre-state (unbounded counters, symbolic tracker membership / flags / waiting sets) over a small universe of fake arrays,
    under a representation invariant; z3 discharges invariant preservation and the flag post-conditions.  A step-level
    counterexample is never reported by itself (DESIGN App. A): it must be matched by a Tensor-level history of (b).
(b) Tensor-level histories (enumerated, concrete flags): operations on tensors, user arrays, views of either, out= targets,
    failing ops, backward / clear_graph and reference drops in every order; a 3-valued specification (must be locked / must
    have the original flag / unspecified) is computed by a reference model of graph liveness and compared after every statement
    and at quiescence.
"""
import gc
import itertools
import sys

import numpy as np
import z3

from symnp import engine as eng_mod, lib, terms as tm
from symnp.scalars import SymBool, SymInt

from . import common, gradcase

PROP = "C08"

from .c08_hist import CREATE, RESULT_ARRAY, Model, programs, replay_history, run_history  # noqa: E402


# ------------------------------------------------------------------ (a) lock manager, symbolic pre-state
class Flags:
    def __init__(self, name, fixed=None):
        self._w = z3.Bool(name + "_w") if fixed is None else fixed

    @property
    def writeable(self):
        return bool(SymBool(self._w)) if not isinstance(self._w, bool) else self._w

    @writeable.setter
    def writeable(self, v):
        self._w = bool(v)


class FA(np.ndarray):
    """fake array: an ndarray subclass (the lock manager asks `isinstance(arr.base, np.ndarray)`) whose `flags` and `base` are the model's"""

    def __new__(cls, name, base=None):
        self = np.ndarray.__new__(cls, (1,))
        self.name = name
        self._flags = Flags(name)
        self._base = base
        return self

    @property
    def flags(self):
        return self._flags

    @property
    def base(self):
        return self._base


class _Foreign:
    """stands for the memoryview / buffer object that is the .base of np.frombuffer(...) arrays"""


class SymCounter(dict):
    """id -> count with Counter semantics (absent reads 0)"""

    def __missing__(self, k):
        return 0


def _solve(conds):
    s = z3.Solver()
    s.set("timeout", 20000)
    s.add(*conds)
    return str(s.check())


def run_step(spec, tier):
    """one call of lock / release on one array of the universe {B, V (view of B), S (stand-alone)} from a symbolic pre-state"""
    import collections

    import mygrad._utils.lock_management as lm

    res = common.new_result()
    engine = eng_mod.Engine()
    engine.reset_fn = lib.reset_state
    opname, target = spec["op"], spec["target"]
    obligations = discharged = 0
    saved = (lm._array_counter, lm._array_tracker, lm._views_waiting_for_unlock)

    def body():
        B = FA("B")
        V = FA("V", B)
        S = FA("S")
        F = FA("F", _Foreign())  # array over a foreign buffer: its base is not an array (no flags)
        arrs = {"B": B, "V": V, "S": S, "F": F}
        cnt = SymCounter()
        trk = {}
        pre = {}
        for a in (B, V, S, F):
            c = z3.Int("c_" + a.name)
            t = z3.Bool("t_" + a.name)
            engine.assume(c >= 0)
            tracked = bool(SymBool(t))
            pre[a.name] = dict(c=c, t=tracked, w=a.flags._w)
            if tracked:
                trk[id(a)] = lm.ref(a)
                if bool(SymBool(c > 0)):
                    cnt[id(a)] = SymInt(c)
                else:
                    engine.assume(c == 0)
            else:
                engine.assume(c == 0)
        wait = collections.defaultdict(set)
        waitBV = bool(SymBool(z3.Bool("wait_B_V")))
        if waitBV:
            wait[id(B)].add(id(V))
        pre["waitBV"] = waitBV
        # ---- representation invariant on the pre-state
        for a in (B, V, S, F):
            p = pre[a.name]
            w = p["w"]
            # counted  =>  tracked and read-only
            engine.assume(z3.Implies(p["c"] > 0, z3.And(z3.BoolVal(p["t"]), z3.Not(w))))
        # tracked with zero count happens only for a view waiting on its read-only base
        engine.assume(z3.Implies(z3.And(z3.BoolVal(pre["B"]["t"]), pre["B"]["c"] == 0), z3.BoolVal(False)))
        engine.assume(z3.Implies(z3.And(z3.BoolVal(pre["S"]["t"]), pre["S"]["c"] == 0), z3.BoolVal(False)))
        engine.assume(z3.Implies(z3.And(z3.BoolVal(pre["F"]["t"]), pre["F"]["c"] == 0), z3.BoolVal(False)))
        engine.assume(z3.Implies(z3.And(z3.BoolVal(pre["V"]["t"]), pre["V"]["c"] == 0),
                                 z3.And(z3.BoolVal(waitBV), z3.Not(pre["V"]["w"]), z3.Not(pre["B"]["w"]))))
        # a waiting entry may be stale (the view was released after its base became writeable again) or point to a
        # view whose count is positive again (it entered a new op): no constraint on it
        # a view of a read-only base is read-only (NumPy)
        engine.assume(z3.Implies(z3.Not(pre["B"]["w"]), z3.Or(z3.Not(pre["V"]["w"]), z3.BoolVal(True))))
        lm._array_counter, lm._array_tracker, lm._views_waiting_for_unlock = cnt, trk, wait
        x = arrs[target]
        w_before = {n: a.flags._w for n, a in arrs.items()}
        if opname == "lock":
            lm.lock_arr_writeability(x)
        elif opname == "force-lock":
            lm.lock_arr_writeability(x, force_lock=True)
        else:
            lm._release_lock_on_arr_writeability(x)
        post = {}
        for a in (B, V, S, F):
            c = cnt.get(id(a), 0)
            post[a.name] = dict(c=SymInt.lift(c) if not isinstance(c, int) else z3.IntVal(c), t=id(a) in trk, w=a.flags._w)
        post["waitBV"] = id(V) in wait.get(id(B), set())
        return pre, post, w_before

    try:
        for p in engine.explore(body, max_paths=3000, max_seconds=200, catch=(KeyError, AttributeError, TypeError)):
            res["paths"] += 1
            if p.exc is not None:
                res["status"] = common.INCONCLUSIVE
                res["notes"].append("lock manager raised %s: %s from a state satisfying the invariant" % (type(p.exc).__name__, p.exc))
                continue
            pre, post, w0 = p.out
            pc = [tm.to_z3(c) for c in p.pc]

            def zb(v):
                return v if isinstance(v, z3.ExprRef) else z3.BoolVal(bool(v))

            obs = []
            # invariant preserved
            for n in ("B", "V", "S", "F"):
                q = post[n]
                obs.append(("inv: counted => tracked & read-only (%s)" % n, [q["c"] > 0, z3.Not(z3.And(zb(q["t"]), z3.Not(zb(q["w"]))))]))
                obs.append(("inv: count never negative (%s)" % n, [q["c"] < 0]))
            for n in ("B", "S", "F"):
                obs.append(("inv: tracked owner has a positive count (%s)" % n, [zb(post[n]["t"]), post[n]["c"] <= 0]))
            obs.append(("inv: tracked view with zero count waits on its base", [zb(post["V"]["t"]), post["V"]["c"] == 0, z3.Not(zb(post["waitBV"]))]))
            # frame: other arrays' counters untouched
            for n in ("B", "V", "S", "F"):
                if n != target:
                    obs.append(("frame: counter of %s untouched" % n, [post[n]["c"] != pre[n]["c"]]))
            q, q0 = post[target], pre[target]
            if opname in ("lock", "force-lock"):
                native_ro = z3.And(z3.Not(zb(q0["t"])), z3.Not(zb(w0[target])))
                if target == "V":
                    native_ro = z3.And(native_ro, z3.Not(zb(pre["B"]["t"])))
                if opname == "force-lock":
                    native_ro = z3.BoolVal(False)
                obs.append(("lock: array is read-only afterwards", [zb(q["w"])]))
                obs.append(("lock: counter incremented unless natively read-only", [z3.Not(native_ro), q["c"] != q0["c"] + 1]))
                obs.append(("lock: natively read-only array is left untracked", [native_ro, z3.Or(zb(q["t"]), q["c"] != 0)]))
            else:
                obs.append(("release: counter decremented (floor 0)", [q["c"] != z3.If(q0["c"] > 0, q0["c"] - 1, 0)]))
                if target != "V":
                    obs.append(("release to zero restores the flag and untracks", [q0["c"] == 1, z3.Or(z3.Not(zb(q["w"])), zb(q["t"]))]))
                    obs.append(("release above zero keeps the array read-only", [q0["c"] > 1, zb(q["w"])]))
                else:
                    base_ro = z3.Not(zb(w0["B"]))
                    obs.append(("release of a view to zero: restored, or waiting on its read-only base",
                                [q0["c"] == 1, z3.Not(z3.Or(z3.And(base_ro, zb(post["waitBV"]), zb(q["t"])), z3.And(z3.Not(base_ro), zb(q["w"]), z3.Not(zb(q["t"])))))]))
                if target == "B":
                    obs.append(("release of the base to zero frees a waiting idle view",
                                [q0["c"] == 1, zb(pre["waitBV"]), zb(pre["V"]["t"]), pre["V"]["c"] == 0, z3.Or(zb(post["waitBV"]), zb(post["V"]["t"]), z3.Not(zb(post["V"]["w"])))]))
            for nm, neg in obs:
                obligations += 1
                r = _solve(pc + neg)
                res[r] += 1
                if r == "unsat":
                    discharged += 1
                elif r == "sat":
                    res["step_counterexamples"] = res.get("step_counterexamples", []) + ["%s/%s: %s" % (opname, target, nm)]
                else:
                    res["status"] = common.INCONCLUSIVE
    except eng_mod.Budget as e:
        res["status"] = common.INCONCLUSIVE
        res["notes"].append(str(e))
    finally:
        lm._array_counter, lm._array_tracker, lm._views_waiting_for_unlock = saved
        lib.reset_state()
    res["obligations"] = obligations
    res["discharged"] = discharged
    if res.get("step_counterexamples"):
        # never reported by itself: only a Tensor-level history of level (b) can raise a violation (DESIGN App. A)
        res["status"] = common.INCONCLUSIVE
        res["notes"].append("unconfirmed step counterexample(s): %s" % sorted(set(res["step_counterexamples"]))[:4])
    res["sample"] = {"step": "%s(%s)" % (opname, target), "pre_state": "symbolic counters >= 0, tracker membership, flags, waiting set under Inv"}
    return res


# ------------------------------------------------------------------ (a') one whole operation: lock its arrays, then release them
def run_oppair(spec, tier):
    """The arrays of one operation are locked (owner before view, as Tensor._op does) and later released by the op's finalizer, from a
    symbolic pre-state in which other operations may hold any of them.  Spec-level obligation (not derived from the code): an array
    that no other operation holds ends with the flag it had before; an array another operation holds stays read-only with its count.
    A counterexample is mapped to the Tensor-level history with the same flag pattern and reported only if that history reproduces."""
    import collections

    import mygrad._utils.lock_management as lm

    mg = common._WORKER["mg"]
    res = common.new_result()
    engine = eng_mod.Engine()
    engine.reset_fn = lib.reset_state
    members = spec["arrays"]
    obligations = discharged = 0
    saved = (lm._array_counter, lm._array_tracker, lm._views_waiting_for_unlock)
    cexs = []

    def body():
        B = FA("B")
        V = FA("V", B)
        S = FA("S")
        F = FA("F", _Foreign())
        arrs = {"B": B, "V": V, "S": S, "F": F}
        cnt, trk, pre = SymCounter(), {}, {}
        for a in (B, V, S, F):
            c = z3.Int("c_" + a.name)
            engine.assume(c >= 0)
            held = bool(SymBool(c > 0))  # another live operation holds the array
            pre[a.name] = dict(c=c, held=held, w=a.flags._w)
            if held:
                trk[id(a)] = lm.ref(a)
                cnt[id(a)] = SymInt(c)
                engine.assume(z3.Not(a.flags._w))  # Inv: counted => read-only
            else:
                engine.assume(c == 0)
        # NumPy: a view created from a read-only owner is read-only, but flags can be changed independently afterwards: no constraint
        lm._array_counter, lm._array_tracker, lm._views_waiting_for_unlock = cnt, trk, collections.defaultdict(set)
        order = [arrs[n] for n in ("B", "V", "S", "F") if n in members]  # owner first (unique_arrs_and_bases)
        for a in order:
            lm.lock_arr_writeability(a)
        during = {a.name: a.flags._w for a in order}
        lm.release_writeability_lock_on_op(order)
        post = {}
        for a in (B, V, S, F):
            c = cnt.get(id(a), 0)
            post[a.name] = dict(c=SymInt.lift(c) if not isinstance(c, int) else z3.IntVal(c), t=id(a) in trk, w=a.flags._w)
        return pre, during, post

    def zb(v):
        return v if isinstance(v, z3.ExprRef) else z3.BoolVal(bool(v))

    try:
        for p in engine.explore(body, max_paths=3000, max_seconds=200, catch=(KeyError, AttributeError, TypeError)):
            res["paths"] += 1
            if p.exc is not None:
                res["status"] = common.INCONCLUSIVE
                res["notes"].append("lock manager raised %s: %s" % (type(p.exc).__name__, p.exc))
                continue
            pre, during, post = p.out
            pc = [tm.to_z3(c) for c in p.pc]
            obs = []
            for n in members:
                obs.append(("during the operation %s is read-only" % n, [zb(during[n])], None))
                family_free = z3.Not(z3.BoolVal(pre[n]["held"]))
                if n == "V":
                    family_free = z3.And(family_free, z3.Not(z3.BoolVal(pre["B"]["held"])))
                obs.append(("an array nobody else holds gets its earlier flag back (%s)" % n, [family_free, zb(post[n]["w"]) != zb(pre[n]["w"])], n))
                obs.append(("an array nobody else holds is untracked afterwards (%s)" % n, [family_free, zb(pre[n]["w"]), z3.Or(zb(post[n]["t"]), post[n]["c"] != 0)], n))
                obs.append(("an array another operation holds stays read-only with its count (%s)" % n,
                            [z3.BoolVal(pre[n]["held"]), z3.Or(zb(post[n]["w"]), post[n]["c"] != pre[n]["c"])], None))
            for n in ("B", "V", "S", "F"):
                if n not in members and not (n == "B" and "V" in members):
                    obs.append(("frame: %s untouched" % n, [z3.Or(post[n]["c"] != pre[n]["c"], zb(post[n]["w"]) != zb(pre[n]["w"]))], None))
            for nm, neg, flagged in obs:
                obligations += 1
                sol = z3.Solver()
                sol.set("timeout", 20000)
                sol.add(*(pc + neg))
                r = str(sol.check())
                res[r] += 1
                if r == "unsat":
                    discharged += 1
                elif r == "sat":
                    m = sol.model()
                    val = lambda nme: bool(m.eval(zb(pre[nme]["w"]), model_completion=True))
                    cexs.append((nm, flagged, {k: val(k) for k in ("B", "V", "S", "F")}))
                else:
                    res["status"] = common.INCONCLUSIVE
    except eng_mod.Budget as e:
        res["status"] = common.INCONCLUSIVE
        res["notes"].append(str(e))
    finally:
        lm._array_counter, lm._array_tracker, lm._views_waiting_for_unlock = saved
        lib.reset_state()
    res["obligations"] = obligations
    res["discharged"] = discharged
    # map every counterexample to the Tensor-level history with the same flag pattern; report only what reproduces there
    seen = set()
    for nm, flagged, w in cexs:
        hist = None
        if flagged == "V" and w["B"] and not w["V"]:
            hist = [("create", "a"), ("release", "a", "del")]  # view made read-only by the caller, owner writeable
        elif flagged == "V" and not w["B"] and w["V"]:
            hist = [("create", "b"), ("release", "b", "del")]  # writeable view of an owner made read-only afterwards
        key = (nm, str(hist))
        if key in seen:
            continue
        seen.add(key)
        if hist is None:
            res["status"] = common.INCONCLUSIVE
            res["notes"].append("unconfirmed operation-level counterexample: %s at pre-flags %s (no Tensor-level history of this shape)" % (nm, w))
            continue
        bad = run_history(mg, hist)
        if not bad:
            res["status"] = common.INCONCLUSIVE
            res["notes"].append("operation-level counterexample `%s` (pre-flags %s) is not shown by history %s" % (nm, w, _fmt(hist)))
            continue
        sig = _signature(bad)
        known = common.match_known(common.load_known(PROP), sig)
        path = common.write_replay(PROP, gradcase._safe(spec["name"] + "_" + hist[0][1]), replay_history(hist))
        ok, out = common.run_replay(path, count=known is None)
        if ok:
            if known is None:
                res["status"] = common.VIOLATION
            res["violations"].append({"signature": sig, "replay": path,
                                      "summary": "z3: %s fails at pre-flags %s; history %s: %s" % (nm, w, _fmt(hist), bad)})
        else:
            res["status"] = common.INCONCLUSIVE
            res["notes"].append("did not reproduce: %s :: %s" % (_fmt(hist), bad))
    res["sample"] = {"operation over": members, "pre_state": "symbolic counts >= 0 (other operations holding the arrays), symbolic flags"}
    return res


# ------------------------------------------------------------------ driver
def cases(tier):
    out = []
    for op in ("lock", "force-lock", "release"):
        for tgt in ("B", "V", "S", "F"):
            out.append({"kind": "step", "name": "step/%s/%s" % (op, tgt), "op": op, "target": tgt})
    for members in (["S"], ["B"], ["B", "V"], ["F"], ["B", "V", "S"], ["S", "F"]):
        out.append({"kind": "oppair", "name": "op/" + "+".join(members), "arrays": members})
    from . import C05

    # auxiliary array inputs (index arrays, where= masks, conditions, label arrays) of every C02 operation, written to by the caller
    # after the forward call: the guard refuses the write, or the write cannot reach the gradients (decided by z3 for all operand values)
    for c in C05.auxsweep_cases(tier, "raw", prefix="aux"):
        for i in range(0, len(c["opsweep"]), 4):  # (small chunks: every listed known finding is confirmed by a replay in a child process)
            out.append({"kind": "aux", "name": "%s.%d" % (c["name"], i), "opsweep": c["opsweep"][i:i + 4]})
    progs = programs(tier)
    size = 400
    for i in range(0, len(progs), size):
        out.append({"kind": "hist", "name": "hist/%d" % i, "progs": progs[i:i + size]})
    return out


def run_case(spec, tier):
    mg = common._WORKER["mg"]
    if spec["kind"] == "step":
        return run_step(spec, tier)
    if spec["kind"] == "oppair":
        return run_oppair(spec, tier)
    if spec["kind"] == "aux":
        from . import C05

        return C05.run_opsweep(spec, tier, mg, PROP=PROP)
    res = common.new_result()
    n = 0
    confirmed = set()
    for prog in spec["progs"]:
        n += 1
        try:
            bad = run_history(mg, prog)
        except Exception as e:
            bad = "raised %s: %s" % (type(e).__name__, str(e)[:200])
        if bad:
            sig = _signature(bad)
            known = common.match_known(common.load_known(PROP), sig)
            if known is not None and sig in confirmed:
                res["violations"].append({"signature": sig, "replay": None, "summary": "(same known finding) history %s" % _fmt(prog)})
                continue
            path = common.write_replay(PROP, gradcase._safe("%s_%d" % (spec["name"], n)), replay_history(prog))
            ok, out = common.run_replay(path, count=known is None)
            if ok:
                if known is None:
                    res["status"] = common.VIOLATION
                else:
                    confirmed.add(sig)
                res["violations"].append({"signature": sig, "replay": path, "summary": "history %s: %s" % (_fmt(prog), bad)})
            else:
                res["status"] = common.INCONCLUSIVE
                res["notes"].append("did not reproduce: %s :: %s :: %s" % (_fmt(prog), bad, (out or "")[-200:]))
    res["paths"] = n
    res["programs"] = n
    res["sample"] = {"history": _fmt(spec["progs"][0])}
    return res


def _signature(bad):
    """known-finding keys: the two flag combinations of a NumPy view and its owner that the lock manager cannot restore"""
    if "no live graph refers to AVRO but its writeable flag is True (original False)" in bad or "at quiescence: AVRO has writeable=True" in bad:
        return "guard:read-only-view-of-writeable-owner:writeable-after-release"
    if "no live graph refers to RWV but its writeable flag is False (original True)" in bad or "at quiescence: RWV has writeable=False" in bad:
        return "guard:writeable-view-of-read-only-owner:read-only-after-release"
    return "guard:%s" % bad.split(": ", 1)[-1][:50]


def _fmt(prog):
    out = []
    for st in prog:
        if st[0] == "create":
            out.append(CREATE[st[1]][0].replace("\n", "; "))
        elif st[0] == "event":
            out.append({"FAIL": "x + np.ones(7) (fails)", "FAILKEEP": "try: mg.add(x, A, out=np.zeros(7)); mg.multiply(x, O, out=np.zeros(7)) (both fail, exceptions kept)",
                        "DROPEXC": "drop the kept exceptions"}.get(st[1], st[1]))
        else:
            out.append(("del %s" % st[1]) if st[2] == "del" else ("%s.clear_graph()" % st[1]))
    return "; ".join(out)


def main(argv=None):
    args = common.parse_args(argv)
    cs = cases(args.tier)
    if args.only:
        cs = [c for c in cs if args.only in c["name"]]

    def extra(results):
        return {"obligations": sum(r.get("obligations", 0) for r in results if r), "discharged": sum(r.get("discharged", 0) for r in results if r),
                "histories": sum(r.get("programs", 0) for r in results if r)}

    describe = dict(
        level="other",
        rule="(a) 12 step cases: {lock, force-lock, release} x {base B, view V of B, stand-alone S, array F over a foreign buffer} from a symbolic pre-state (counters unbounded >= 0, "
             "tracker membership, writeable flags and the waiting set symbolic) under the representation invariant; (b) every ordered selection of <= 2 "
             "(thorough 3) of 15 graph-creating statements (user array, read-only array, NumPy view, view taken while locked, out= target, out= views of one "
             "buffer, matmul, tensor sharing a user array, read-only view of a writeable owner, writeable view of a read-only owner, array over a foreign "
             "buffer, in-place updates through a dropped view / out= temporaries / the tensor itself) with one mid-history event (backward / clear_graph / del / failing op) at every position, then every release order "
             "of the remaining results by del or clear_graph",
        explanation="(a) z3 discharges invariant preservation, frame and flag post-conditions of the real lock-manager functions for all pre-states within "
                    "the universe; (b) concrete flags compared, after every statement and at quiescence with the cyclic GC disabled, with a 3-valued "
                    "specification (must be locked while a live, un-cleared graph refers to the array; original flag once none does; natively read-only "
                    "stays read-only) computed by a reference model of graph liveness that does not look at the lock tables",
        functions=["mygrad._utils.lock_management.lock_arr_writeability", "_release_lock_on_arr_writeability", "release_writeability_lock_on_op",
                   "array_is_tracked", "unique_arrs_and_bases", "Tensor._op (locking / finalize)", "Tensor.clear_graph"],
        bounds={"universe (a)": "{B, V view of B, S, F (base not an array)}", "histories (b)": "<= 2 graphs + 1 event (quick); thorough adds every third ordered triple of statements"},
        assumptions=["fake arrays expose flags.writeable / base only", "CPython reference counting is observed (gc disabled), not encoded",
                     "step-level counterexamples are never reported without a reproducing Tensor-level history"],
        outside=["finalizer timing under a cyclic GC pass", "threads", "arrays whose .base is neither an ndarray nor a buffer exporter (np.lib.stride_tricks.as_strided: NumPy refuses to make them writeable again)"],
    )
    return common.main(PROP, "harness.C08", cs, args.tier, args.seed, describe, extra_evidence=extra, deadline_s=900 if args.tier == "quick" else 3000)


if __name__ == "__main__":
    sys.exit(main())
