"""Generic 'gradient case': run source statements on symbolic tensors, call backward, compare every
leaf gradient with the reference derivative of the forward term the run itself produced.

A case is a JSON-able dict
  name     : str
  leaves   : [[name, shape, layout]]   non-constant tensors with symbolic data ("C" | "F" layout)
  carrs    : [[name, shape]]           plain (constant) ndarrays with symbolic data
  setup    : source, concrete helper values (index arrays, masks, labels); also run by the replay
  assume   : source, symbolic-only domain restrictions (helpers: gt, lt, ne, distinct)
  body     : source; must bind ``out``
  seed     : "sym" (default) | "none"  (backward() without argument)
  convention : None | "zero_at_tie"    asserted on boundary paths for variables in the tie
"""
import json
import time

import numpy as np

from symnp import diff, engine as eng_mod, lib, numeric, query, terms as tm, vjp
from symnp.scalars import Sym, symarr, terms_of

from . import common, replay_tpl


def make_env(mg):
    import mygrad.nnet as nnet
    from mygrad.nnet import activations, layers, losses

    env = {"mg": mg, "np": np, "nnet": nnet, "Tensor": mg.Tensor}
    for m in (activations, layers, losses):
        for n in m.__all__:
            env[n] = getattr(m, n)
    return env


def _assume_helpers(engine):
    def each(x):
        a = np.asarray(x.data if hasattr(x, "data") and not isinstance(x, np.ndarray) else x, dtype=object)
        return [Sym.lift(e) for e in a.reshape(-1)]

    def lift(v):
        return Sym.lift(v)

    def gt(x, v):
        for e in each(x):
            engine.assume(tm.lt(lift(v), e))

    def lt(x, v):
        for e in each(x):
            engine.assume(tm.lt(e, lift(v)))

    def ne(x, v):
        for e in each(x):
            engine.assume(tm.ne(e, lift(v)))

    def distinct(x):
        es = each(x)
        for i in range(len(es)):
            for j in range(i):
                engine.assume(tm.ne(es[i], es[j]))

    def ordered(x):
        es = each(x)
        for i in range(1, len(es)):
            engine.assume(tm.lt(es[i - 1], es[i]))

    def eq(x, y):
        for a, b in zip(each(x), each(y)):
            engine.assume(tm.eq(a, b))

    return {"gt": gt, "lt": lt, "ne": ne, "distinct": distinct, "ordered": ordered, "eq": eq}


def mk_leaf(name, shape, layout="C"):
    shape = tuple(shape)
    if layout == "F" and len(shape) >= 2:
        return symarr(name, shape[::-1]).T
    return symarr(name, shape)


def run(spec, tier, prop, mg, max_paths=400, max_seconds=120.0, timeout_ms=10000, on_path=None,
        claim_boundary=True, skip_ties=False):
    res = common.new_result()
    engine = eng_mod.Engine(skip_ties=skip_ties)
    engine.reset_fn = lib.reset_state
    env0 = make_env(mg)
    leaves_spec = spec.get("leaves", [])
    carr_spec = spec.get("carrs", [])
    seed_mode = spec.get("seed", "sym")

    def body():
        env = dict(env0)
        arrs = {}
        for ent in leaves_spec:
            name, shape = ent[0], ent[1]
            layout = ent[2] if len(ent) > 2 else "C"
            arrs[name] = mk_leaf(name, shape, layout)
        for name, shape in carr_spec:
            env[name] = symarr(name, tuple(shape))
        if spec.get("setup"):
            exec(spec["setup"], env)
        tens = {}
        for name, a in arrs.items():
            tens[name] = mg.Tensor(a)  # Tensor() copies
            env[name] = tens[name]
        if spec.get("assume"):
            e2 = dict(env)
            e2.update(_assume_helpers(engine))
            exec(spec["assume"], e2)
        if spec.get("pre_grads"):
            # every leaf already holds a gradient from an earlier, unrelated backward pass (it must not leak into the new one)
            pre = None
            for t in tens.values():
                pre = (t * t).sum() if pre is None else pre + (t * t).sum()
            if pre is not None:
                pre.backward()
        exec(spec["body"], env)
        out = env["out"]
        out_terms = terms_of(out.data)
        if spec.get("ref_body"):
            # reference forward written against NumPy on the raw symbolic arrays: independent of the path the library took
            # (needed where the library branches on an equality: on that path its own forward pins the variable)
            renv = {"np": np}
            renv.update({n: np.array(a, dtype=object) for n, a in arrs.items()})
            renv.update({n: env[n] for n, _ in carr_spec})
            exec(spec["ref_body"], renv)
            out_terms = terms_of(np.asarray(renv["out"], dtype=object))
        if seed_mode == "sym":
            g = symarr("g", out.shape)
            seed_terms = terms_of(g)
            L = diff.weighted_sum(out_terms, seed_terms)
            out.backward(g)
        else:
            g = None
            L = diff.weighted_sum(out_terms, [tm.const(1)] * len(out_terms))
            out.backward()
        grads = {n: t.grad for n, t in tens.items()}
        return arrs, tens, grads, L, out, env

    t0 = time.time()
    sample_done = False
    try:
        for p in engine.explore(body, max_paths=max_paths, max_seconds=max_seconds):
            res["paths"] += 1
            if p.exc is not None and type(p.exc).__name__ == "NonReal":
                # a NaN/inf constant was produced: outside the real semantics, no claim on this path
                res["boundary_paths"] += 1
                res["nonreal_paths"] = res.get("nonreal_paths", 0) + 1
                continue
            if p.exc is not None:
                res["exc_paths"] += 1
                # every case is a legal call: if the REAL library raises the same exception on ordinary floats it is a violation,
                # otherwise an artefact of the symbolic run (inconclusive)
                if not res.get("_raise_replayed"):
                    res["_raise_replayed"] = True
                    path = common.write_replay(prop, _safe(spec["name"] + "_raises"), replay_tpl.raises_replay(prop, spec, type(p.exc).__name__))
                    ok, out = common.run_replay(path)
                    if ok is True:
                        res["status"] = common.VIOLATION
                        res["violations"].append({"signature": "%s:raises:%s" % (spec["name"], type(p.exc).__name__), "replay": path,
                                                  "summary": "`%s` (a legal call) raises %s: %s" % (spec["body"].replace("\n", "; ")[:80], type(p.exc).__name__, str(p.exc)[:120])})
                        continue
                if res["status"] != common.VIOLATION:
                    res["status"] = common.INCONCLUSIVE
                res["notes"].append("library raised on a path: %s: %s" % (type(p.exc).__name__, str(p.exc)[:300]))
                continue
            arrs, tens, grads, L, out, env = p.out
            if on_path is not None:
                on_path(p, res, spec)
            if spec.get("all_tied"):
                # e.g. maximum(x, x): every element is a tie, the documented convention sends zero
                L = tm.const(0)
                res["convention_paths"] = res.get("convention_paths", 0) + 1
            elif p.boundary and not spec.get("smooth_at_ties"):
                if spec.get("convention") == "zero_at_tie" and claim_boundary:
                    # documented convention: a tied output element sends nothing to any operand.
                    # Expected gradient = derivative of  Σ_{j not tied} g_j·out_j
                    J = tied_outputs(p, arrs, env, spec, out)
                    ot = terms_of(out.data)
                    if seed_mode == "sym":
                        st = terms_of(symarr("g", out.shape))
                    else:
                        st = [tm.const(1)] * len(ot)
                    L = diff.weighted_sum([o for j, o in enumerate(ot) if j not in J],
                                          [g for j, g in enumerate(st) if j not in J])
                    res["convention_paths"] = res.get("convention_paths", 0) + 1
                else:
                    res["boundary_paths"] += 1
                    continue
            if spec.get("check_defined"):
                _check_defined(res, spec, prop, p)
            leaves = [(n, arrs[n], grads[n]) for n in arrs]
            if spec.get("skip_leaves"):
                leaves = [l for l in leaves if l[0] not in spec["skip_leaves"]]
            if spec.get("pre_grads"):
                # a leaf the program never touches legitimately keeps the gradient of the earlier pass (C07): no claim on it here
                import re as _re
                leaves = [l for l in leaves if _re.search(r"\b%s\b" % l[0], spec["body"])]
            r = vjp.check_grads(p, L, leaves, timeout_ms=timeout_ms)
            res["unsat"] += r["unsat"]
            res["sat"] += r["sat"]
            res["unknown"] += r["unknown"]
            if r["reachable"] == "unsat":
                res["notes"].append("spurious path dropped (pc ∧ facts unsat)")
                res["spurious_paths"] = res.get("spurious_paths", 0) + 1
                continue
            if r["reachable"] == "unknown":
                res["notes"].append("reachability witness unknown")
            if r["unknown"]:
                res["status"] = common.INCONCLUSIVE
                res["notes"].append("solver answered unknown on a VJP query")
            if r["cex"] is not None:
                _handle_cex(res, spec, prop, r["cex"], p, arrs, L, grads)
            if not sample_done and r["witness"]:
                sample_done = True
                res["sample"] = {
                    "case": spec["name"],
                    "body": spec["body"],
                    "path_condition": [tm.show(x, 3) for x in p.pc[:6]],
                    "witness_input": {k: float(v) for k, v in list(r["witness"].items())[:8] if not isinstance(v, bool)},
                }
    except eng_mod.Budget as e:
        res["status"] = common.INCONCLUSIVE
        res["notes"].append(str(e))
    except eng_mod.Unbounded as e:
        res["status"] = common.INCONCLUSIVE
        res["notes"].append("unbounded concretisation: %s" % e)
    res["ties_skipped"] = engine.ties_skipped
    if res["paths"] == 0:
        res["status"] = common.INCONCLUSIVE
        res["notes"].append("no feasible path")
    return res


def tied_outputs(p, arrs, env, spec, out):
    """flat indices of output elements whose operand elements contain all variables of a tie atom"""
    ops = []
    for n, a in arrs.items():
        ops.append(np.asarray(a, dtype=object))
    for n, shape in spec.get("carrs", []):
        ops.append(np.asarray(env[n], dtype=object))
    sets = []
    for a in ops:
        try:
            b = np.broadcast_to(a, out.shape)
        except ValueError:
            continue
        sets.append(b.reshape(-1))
    J = set()
    nout = int(np.prod(out.shape)) if out.shape else 1
    ot = terms_of(out.data)
    for atom in p.boundary:
        av = set(tm.variables([atom]))
        if not av:
            continue
        for j in range(nout):
            S = set()
            for b in sets:
                S.update(tm.variables([Sym.lift(b[j])]))
            # the tie concerns element j and the tied value is what element j returns
            if av <= S and (set(tm.variables([ot[j]])) & av):
                J.add(j)
    return J


def _check_zero_convention(p, res, spec, prop, arrs, grads, bv, timeout_ms):
    prob = query.Problem(list(p.pc) + list(p.dom))
    for n, a in arrs.items():
        vt = terms_of(a)
        if grads[n] is None:
            continue
        gt = terms_of(grads[n])
        for k, (v, g) in enumerate(zip(vt, gt)):
            if v.val in bv:
                r = prob.differ(g, tm.const(0), timeout_ms)
                res[r.verdict] += 1
                if r.verdict == "sat":
                    cex = {"kind": "convention", "leaf": n, "index": k, "model": r.model, "got": g, "ref": tm.const(0)}
                    _handle_cex(res, spec, prop, cex, p, arrs, None, grads)
                elif r.verdict == "unknown":
                    res["status"] = common.INCONCLUSIVE
    res["convention_paths"] = res.get("convention_paths", 0) + 1


def model_env(model, arrs, extra_names=()):
    envn = {}
    for n, a in arrs.items():
        for e in np.asarray(a, dtype=object).reshape(-1):
            envn[e.t.val] = model.get(e.t.val, 0) if model else 0
    return envn


def _check_defined(res, spec, prop, p):
    """definedness: every point of the spec's domain (the case's `assume`) must keep the implementation inside the reals; an obligation
    recorded while executing (denominator != 0, log argument > 0, ...) that can fail under the path condition alone is a finding"""
    import z3

    base = [tm.to_z3(c) for c in p.pc] + [tm.to_z3(c) for c in p.dom if c not in p.oblig]
    for ob in p.oblig:
        sol = z3.Solver()
        sol.set("timeout", 5000)
        sol.add(*base)
        sol.add(z3.Not(tm.to_z3(ob)))
        r = str(sol.check())
        res[r if r in ("sat", "unsat") else "unknown"] += 1
        if r != "sat":
            continue
        m = sol.model()
        model = {}
        for d in m.decls():
            v = m[d]
            try:
                model[d.name()] = float(v.as_fraction()) if hasattr(v, "as_fraction") else float(str(v))
            except Exception:
                pass
        src = replay_tpl.defined_replay(prop, spec, model)
        path = common.write_replay(prop, _safe(spec["name"] + "_defined"), src)
        # at most one such replay per case (the function returns below): it does not draw on the replay budget, which is kept for
        # gradient counterexamples (on the unchanged tree about a dozen candidate points are replayed and none reproduces)
        ok, out = common.run_replay(path, count=False)
        if ok is True:
            res["status"] = common.VIOLATION
            res["violations"].append({"signature": "%s:undefined" % spec["name"], "replay": path,
                                      "summary": "`%s`: inside the operation's domain the implementation evaluates outside the reals (needs %s): non-finite gradient"
                                      % (spec["body"].replace("\n", "; ")[:80], tm.show(ob, 3))})
        else:
            res["notes"].append("definedness counterexample did not reproduce (%s)" % tm.show(ob, 3))
        return


def _handle_cex(res, spec, prop, cex, p, arrs, L, grads):
    """three-way replay gate (DESIGN §1.7)"""
    if cex.get("kind") == "shape":
        res["status"] = common.VIOLATION
        res["violations"].append({"signature": "%s:shape:%s" % (spec["name"], cex["leaf"]), "replay": None,
                                  "summary": "gradient of %s has shape %s" % (cex["leaf"], cex["got"])})
        return
    model = dict(cex.get("model") or {})
    names = tm.variables([cex["got"], cex["ref"]] + ([L] if L is not None else []) + list(p.pc) + list(p.dom))
    for n in names:
        model.setdefault(n, 1)
    # every symbol of the case gets a value
    allsyms = {}
    for n, a in arrs.items():
        allsyms[n] = np.asarray(a, dtype=object)
    G, F = numeric.evaluate([cex["got"], cex["ref"]], model)
    if G is None or F is None:
        res["status"] = common.INCONCLUSIVE
        res["notes"].append("counterexample point lies outside the domain when evaluated with true functions")
        return
    scale = max(1.0, abs(float(F)), abs(float(G)))
    if abs(float(G) - float(F)) <= 1e-12 * scale:
        res["status"] = common.INCONCLUSIVE
        res["notes"].append("spurious sat: disappears with the true transcendental functions (|G-F|=%g)" % abs(float(G - F)))
        return
    # check the path condition really holds at the model (otherwise the replay follows another path)
    pcv = numeric.evaluate(list(p.pc) + list(p.dom), model)
    if not all(v is True or v is np.True_ for v in pcv):
        res["status"] = common.INCONCLUSIVE
        res["notes"].append("model does not satisfy the path condition under true functions")
        return
    src = replay_tpl.grad_replay(prop, spec, model, cex["leaf"], cex["index"], float(F), float(G))
    path = common.write_replay(prop, _safe(spec["name"]), src)
    # (a confirmation of a listed known finding does not use up the replay budget)
    ok, out = common.run_replay(path, count=common.match_known(common.load_known(prop), "%s:%s" % (spec["name"], cex["leaf"])) is None)
    if ok is True:
        res["status"] = common.VIOLATION
        res["violations"].append(
            {
                "signature": "%s:%s" % (spec["name"], cex["leaf"]),
                "replay": path,
                "summary": "d/d%s[%s] of `%s`: reference %.12g, implementation %.12g"
                % (cex["leaf"], cex["index"], spec["body"].replace("\n", "; ")[:80], float(F), float(G)),
            }
        )
    else:
        res["status"] = common.INCONCLUSIVE
        res["notes"].append("counterexample did not reproduce on the real library: %s" % (out or "")[-400:])


def _safe(s):
    return "".join(ch if ch.isalnum() else "_" for ch in s)[:80]
