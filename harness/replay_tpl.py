"""Stand-alone replay scripts (run against the untouched library with ordinary float arrays)."""
import json

import numpy as np

HEADER = '''#!/usr/bin/env python
# Replay of a counterexample found by the solver-based check for {prop}.
# Runs the *unpatched* MyGrad (PYTHONPATH=/repo/src) on ordinary float64 arrays.
# exit 1 + "REPRODUCED"  : the real library shows the violation
# exit 0 + "NOT-REPRODUCED": it does not (encoding or abstraction was wrong -> harness error)
# exit 3 + "MODEL-MISMATCH": the real library does not compute what was encoded
import sys
import numpy as np
import mygrad as mg
import mygrad.nnet as nnet
from mygrad import Tensor
from mygrad.nnet.activations import *
from mygrad.nnet.layers import *
from mygrad.nnet.losses import *
np.seterr(all="ignore")
'''


def _arr(name, shape, model):
    shape = tuple(shape)
    a = np.zeros(shape, dtype=np.float64)
    for idx in np.ndindex(*shape):
        v = model.get(name + "".join("_%d" % i for i in idx), 1)
        a[idx] = float(v)
    return a


def _lit(a):
    return "np.array(%s, dtype=np.float64).reshape(%r)" % (json.dumps(np.asarray(a).reshape(-1).tolist()), tuple(a.shape))


def grad_replay(prop, spec, model, leaf, index, F, G, out_shape_expr="out.shape"):
    s = HEADER.format(prop=prop)
    s += "# case: %s\n" % spec["name"]
    for name, shape in spec.get("carrs", []):
        s += "%s = %s\n" % (name, _lit(_arr(name, shape, model)))
    if spec.get("setup"):
        s += spec["setup"].rstrip() + "\n"
    for ent in spec.get("leaves", []):
        name, shape = ent[0], ent[1]
        layout = ent[2] if len(ent) > 2 else "C"
        if layout == "F" and len(shape) >= 2:
            s += "%s = mg.Tensor(%s.T)\n" % (name, _lit(_arr(name, tuple(shape)[::-1], model)))
        else:
            s += "%s = mg.Tensor(%s)\n" % (name, _lit(_arr(name, shape, model)))
    if spec.get("pre_grads"):
        s += "_pre = None\n"
        for ent in spec.get("leaves", []):
            s += "_pre = (%s * %s).sum() if _pre is None else _pre + (%s * %s).sum()\n" % ((ent[0],) * 4)
        s += "_pre.backward()  # every leaf already holds a gradient from an earlier pass\n"
    s += spec["body"].rstrip() + "\n"
    if spec.get("seed", "sym") == "sym":
        s += "G_MODEL = %s\n" % json.dumps({k: float(v) for k, v in model.items() if k.startswith("g")})
        s += "seed = np.ones(out.shape)\n"
        s += "for idx in np.ndindex(*out.shape):\n"
        s += "    seed[idx] = G_MODEL.get('g' + ''.join('_%d' % i for i in idx), 1.0)\n"
        s += "out.backward(seed)\n"
    else:
        s += "out.backward()\n"
    s += "grad = %s.grad\n" % leaf
    s += "R = 0.0 if grad is None else float(np.asarray(grad, dtype=float).reshape(-1)[%d])\n" % (index or 0)
    s += "F = %r  # reference derivative (true functions, 50 digits)\n" % F
    s += "G = %r  # value of the implementation's gradient term as encoded\n" % G
    s += "scale = max(1.0, abs(F), abs(G))\n"
    s += "print('d/d%s[%s]: real library', R, ' reference', F, ' encoded', G)\n" % (leaf, index)
    s += "if not (abs(R - G) <= 1e-6 * scale):\n    print('MODEL-MISMATCH'); sys.exit(3)\n"
    s += "if abs(R - F) > 1e-9 * scale:\n    print('REPRODUCED'); sys.exit(1)\n"
    s += "print('NOT-REPRODUCED'); sys.exit(0)\n"
    return s


def defined_replay(prop, spec, model):
    """runs the case at the model point and reports non-finite gradient entries (the operation is defined there)"""
    s = HEADER.format(prop=prop)
    s += "# case: %s (definedness)\n" % spec["name"]
    for name, shape in spec.get("carrs", []):
        s += "%s = %s\n" % (name, _lit(_arr(name, shape, model)))
    if spec.get("setup"):
        s += spec["setup"].rstrip() + "\n"
    names = []
    for ent in spec.get("leaves", []):
        name, shape = ent[0], ent[1]
        names.append(name)
        layout = ent[2] if len(ent) > 2 else "C"
        if layout == "F" and len(shape) >= 2:
            s += "%s = mg.Tensor(%s.T)\n" % (name, _lit(_arr(name, tuple(shape)[::-1], model)))
        else:
            s += "%s = mg.Tensor(%s)\n" % (name, _lit(_arr(name, shape, model)))
    s += spec["body"].rstrip() + "\n"
    s += "out.backward()\n"
    s += "bad = [(n, t.grad.tolist()) for n, t in %s if t.grad is not None and not np.all(np.isfinite(t.grad))]\n" % ("[" + ", ".join("(%r, %s)" % (n, n) for n in names) + "]")
    s += "print('forward finite:', bool(np.all(np.isfinite(out.data))), 'non-finite gradients:', bad)\n"
    s += "if bad and np.all(np.isfinite(out.data)):\n    print('REPRODUCED'); sys.exit(1)\n"
    s += "print('NOT-REPRODUCED'); sys.exit(0)\n"
    return s


def raises_replay(prop, spec, exc_name):
    """runs the case (forward and backward) on ordinary floats; REPRODUCED if the real library raises the same exception type"""
    s = HEADER.format(prop=prop)
    s += "# case: %s (the symbolic run raised %s)\n" % (spec["name"], exc_name)
    s += "rng = np.random.RandomState(2)\n"
    for name, shape in spec.get("carrs", []):
        s += "%s = np.asarray(rng.rand(*%r) * 0.5 + 0.6)\n" % (name, tuple(shape))
    if spec.get("setup"):
        s += spec["setup"].rstrip() + "\n"
    for ent in spec.get("leaves", []):
        name, shape = ent[0], tuple(ent[1])
        layout = ent[2] if len(ent) > 2 else "C"
        if layout == "F" and len(shape) >= 2:
            s += "%s = mg.Tensor(np.asarray(rng.rand(*%r) * 0.5 + 0.6).T)\n" % (name, shape[::-1])
        else:
            s += "%s = mg.Tensor(np.asarray(rng.rand(*%r) * 0.5 + 0.6))\n" % (name, shape)
    s += "try:\n"
    for ln in spec["body"].rstrip().split("\n"):
        s += "    " + ln + "\n"
    s += "    out.backward()\n"
    s += "except Exception as e:\n"
    s += "    print('raised', type(e).__name__, e)\n"
    s += "    if type(e).__name__ == %r:\n        print('REPRODUCED'); sys.exit(1)\n" % exc_name
    s += "print('NOT-REPRODUCED'); sys.exit(0)\n"
    return s
