"""Shared check driver: case sharding, verdict aggregation, replay gate, known findings, evidence."""
import json
import multiprocessing as mp
import os
import subprocess
import sys
import time
import traceback

VERIF = os.path.dirname(os.path.dirname(os.path.abspath(__file__)))
REPO = os.environ.get("VERIF_REPO", "/repo")
PY_REAL = os.environ.get("VERIF_REAL_PY", "/venv/bin/python")
NPROC = int(os.environ.get("VERIF_NPROC", "16"))

OK, VIOLATION, INCONCLUSIVE = "ok", "violation", "inconclusive"


class CaseResult(dict):
    """dict with keys: status, paths, boundary, queries{unsat,sat,unknown}, detail, cex, sample, used"""


def new_result(**kw):
    r = dict(
        status=OK,
        paths=0,
        boundary_paths=0,
        exc_paths=0,
        unsat=0,
        sat=0,
        unknown=0,
        solver_s=0.0,
        wall_s=0.0,
        violations=[],
        notes=[],
        nontrivial=True,
    )
    r.update(kw)
    return r


# ------------------------------------------------------------------ worker side
_WORKER = {}


_REPLAYS = {"budget": None}
REPLAY_CAP = int(os.environ.get("VERIF_REPLAY_CAP", "24"))


def _init_worker(check_module, symbolic, budget=None):
    _REPLAYS["budget"] = budget
    sys.path.insert(0, VERIF)
    os.environ.setdefault("OMP_NUM_THREADS", "1")
    os.environ.setdefault("OPENBLAS_NUM_THREADS", "1")
    os.environ.setdefault("NUMBA_DISABLE_JIT", "0")
    import importlib

    from symnp import lib

    try:
        mg = lib.load(symbolic=symbolic)
        _WORKER["mg"] = mg
        _WORKER["mod"] = importlib.import_module(check_module)
        _WORKER["err"] = None
    except BaseException as e:  # harness error: surfaced by every case
        _WORKER["err"] = "".join(traceback.format_exception(type(e), e, e.__traceback__))


def _run_one(args):
    idx, spec, tier = args
    t0 = time.time()
    if _WORKER.get("err"):
        return idx, new_result(status=INCONCLUSIVE, notes=["worker init failed: " + _WORKER["err"][-1500:]])
    from symnp import proxy, query, terms as tm

    tm.reset()
    q0 = dict(query.STATS)
    try:
        res = _WORKER["mod"].run_case(spec, tier)
    except BaseException as e:
        tb = "".join(traceback.format_exception(type(e), e, e.__traceback__))
        res = new_result(status=INCONCLUSIVE, notes=["harness exception: " + tb[-2000:]])
    res["wall_s"] = time.time() - t0
    res["solver_s"] = query.STATS["solver_s"] - q0.get("solver_s", 0.0)
    res["used"] = dict(proxy.USED)
    res["cvc5_used"] = query.STATS.get("cvc5_used", 0) - q0.get("cvc5_used", 0)
    return idx, res


# ------------------------------------------------------------------ replay gate
def run_replay(script_path, timeout=300, count=True):
    """run a stand-alone replay against the untouched library; returns (reproduced, output).  `count=False` (used for the one
    confirming replay per case of a counterexample that matches a listed known finding) does not draw on the replay cap"""
    b = _REPLAYS.get("budget") if count else None
    if b is not None:
        with b.get_lock():
            if b.value <= 0:
                return None, "replay budget of this run exhausted (%d replays): further counterexamples are not replayed" % REPLAY_CAP
            b.value -= 1
    env = dict(os.environ)
    env["PYTHONPATH"] = os.path.join(REPO, "src")
    env.pop("MYGRAD_VERIF", None)
    try:
        p = subprocess.run([PY_REAL, script_path], env=env, capture_output=True, text=True, timeout=timeout)
    except subprocess.TimeoutExpired:
        return None, "replay timed out"
    out = (p.stdout or "") + (p.stderr or "")
    if p.returncode == 1 and "REPRODUCED" in out:
        return True, out
    if p.returncode == 0 and "NOT-REPRODUCED" in out:
        return False, out
    return None, out


def write_replay(prop, name, source):
    d = os.path.join(VERIF, "replays", prop)
    os.makedirs(d, exist_ok=True)
    path = os.path.join(d, name + ".py")
    with open(path, "w") as f:
        f.write(source)
    return path


# ------------------------------------------------------------------ known findings
def load_known(prop):
    p = os.path.join(VERIF, "known_findings.json")
    if not os.path.exists(p):
        return []
    with open(p) as f:
        data = json.load(f)
    return [e for e in data.get("findings", []) if e.get("property") == prop and e.get("status", "open") == "open"]


def match_known(known, signature):
    for e in known:
        if e.get("signature") == signature or signature in e.get("signatures", ()):
            return e
    return None


# ------------------------------------------------------------------ main driver
def main(prop, check_module, cases, tier, seed, describe, symbolic=True, deadline_s=None, extra_evidence=None,
         preflight=None):
    """
    cases     : list of JSON-able specs
    describe  : dict(functions=[...], bounds=..., rule=..., explanation=..., assumptions=[...], level=...)
    """
    t0 = time.time()
    import random

    order = list(range(len(cases)))
    random.Random(seed).shuffle(order)  # the seed only permutes the order of cases
    known = load_known(prop)
    results = [None] * len(cases)
    ctx = mp.get_context("fork")
    nproc = max(1, min(NPROC, len(cases)))
    harness_errors = []
    if preflight is not None:
        try:
            preflight()
        except BaseException as e:
            harness_errors.append("preflight failed: %s: %s" % (type(e).__name__, e))
    timed_out = False
    if not harness_errors:
        budget = ctx.Value("i", REPLAY_CAP)
        with ctx.Pool(nproc, initializer=_init_worker, initargs=(check_module, symbolic, budget), maxtasksperchild=200) as pool:
            it = pool.imap_unordered(_run_one, [(i, cases[i], tier) for i in order], chunksize=1)
            done = 0
            while done < len(cases):
                try:
                    remaining = None if deadline_s is None else max(1.0, deadline_s - (time.time() - t0))
                    idx, res = it.next(timeout=remaining)
                except mp.TimeoutError:
                    timed_out = True
                    pool.terminate()
                    break
                except StopIteration:
                    break
                results[idx] = res
                done += 1
    # ---------------------------------------------------------------- aggregate
    agg = dict(paths=0, boundary_paths=0, exc_paths=0, unsat=0, sat=0, unknown=0, solver_s=0.0)
    used = {}
    violations = []
    known_hits = []
    inconclusive = []
    nontrivial = 0
    cvc5_used = 0
    for i, r in enumerate(results):
        if r is None:
            inconclusive.append({"case": cases[i], "why": "not run before the deadline"})
            continue
        for k in agg:
            agg[k] += r.get(k, 0)
        cvc5_used += r.get("cvc5_used", 0)
        for k, v in r.get("used", {}).items():
            used[k] = max(used.get(k, 0), v)
        if r.get("nontrivial", True) and r.get("paths", 0) > 0:
            nontrivial += 1
        if r["status"] == INCONCLUSIVE:
            inconclusive.append({"case": cases[i], "why": r.get("notes", [])[-3:]})
        for v in r.get("violations", []):
            e = match_known(known, v.get("signature"))
            if e is not None:
                known_hits.append((e, v))
            else:
                violations.append(v)
    wall = time.time() - t0
    if os.environ.get("VERIF_SIG_DUMP"):
        # development aid (never used by a registered command): the signatures of everything reported, listed or not
        with open(os.environ["VERIF_SIG_DUMP"], "a") as f:
            for v in violations + [v for _, v in known_hits]:
                f.write("%s\t%s\n" % (v.get("signature"), (v.get("summary") or "")[:160]))
    seen_known = set()
    for e, v in known_hits:
        key = e.get("signature") or e.get("keyed_by") or ("%s:list#%d" % (prop, known.index(e)))
        if key not in seen_known:
            seen_known.add(key)
            print("KNOWN-FINDING: property=%s %s" % (prop, e.get("what", e.get("signature"))))
    for v in violations:
        print("VIOLATION property=%s replay=%s" % (prop, v.get("replay")))
        if v.get("summary"):
            print("   " + v["summary"])
    for h in harness_errors:
        print("HARNESS-ERROR: " + h)
    with open(os.path.join(VERIF, ".work", prop + "_inconclusive.json") if os.path.isdir(os.path.join(VERIF, ".work")) else os.devnull, "w") as f:
        json.dump(inconclusive, f, indent=1, default=str)
    for inc in inconclusive[:10]:
        print("INCONCLUSIVE: %s :: %s" % (json.dumps(inc["case"], default=str)[:200], str(inc["why"])[:600]))
    if len(inconclusive) > 10:
        print("INCONCLUSIVE: … %d more" % (len(inconclusive) - 10))
    samples = []
    for i, r in enumerate(results):
        if r is not None and r.get("sample") is not None:
            samples.append(r["sample"])
        if len(samples) >= 8:
            break
    if not samples:
        samples = [cases[i] for i in order[:5]]
    coverage = dict(
        evaluations=int(agg["paths"]) if agg["paths"] else len([r for r in results if r]),
        distinct_nontrivial=int(nontrivial),
        rule=describe.get("rule", ""),
        samples=samples,
        explanation=describe.get("explanation", ""),
        exhaustive=bool(describe.get("exhaustive", False)) and not inconclusive,
        cases=len(cases),
        cases_run=len([r for r in results if r is not None]),
        paths=int(agg["paths"]),
        boundary_paths_no_claim=int(agg["boundary_paths"]),
        exception_paths=int(agg["exc_paths"]),
        queries=dict(unsat=int(agg["unsat"]), sat=int(agg["sat"]), unknown=int(agg["unknown"])),
        queries_decided_by_cvc5=int(cvc5_used),
        solver_s=round(agg["solver_s"], 3),
        functions_encoded=describe.get("functions", []),
        bounds=describe.get("bounds", {}),
        substitutions_exercised=used,
        inconclusive_cases=len(inconclusive),
        known_findings_matched=sorted(seen_known),
        outside=describe.get("outside", []),
    )
    if extra_evidence:
        coverage.update(extra_evidence(results))
    ev = dict(
        property_id=prop,
        tier=tier,
        seed=int(seed),
        level=describe.get("level", "other"),
        coverage=coverage,
        assumptions=describe.get("assumptions", []),
        wall_s=round(wall, 3),
        violations=len(violations),
    )
    evdir = os.environ.get("VERIF_EVIDENCE_DIR", os.path.join(VERIF, "evidence"))
    os.makedirs(evdir, exist_ok=True)
    with open(os.path.join(evdir, prop + ".json"), "w") as f:
        json.dump(ev, f, indent=1, default=str)
    print(
        "%s %s: cases=%d paths=%d queries unsat=%d sat=%d unknown=%d boundary=%d solver=%.1fs wall=%.1fs"
        % (prop, tier, len(cases), agg["paths"], agg["unsat"], agg["sat"], agg["unknown"], agg["boundary_paths"],
           agg["solver_s"], wall)
    )
    slow = sorted(((r.get("wall_s", 0), cases[i].get("name", str(i)) if isinstance(cases[i], dict) else str(i))
                   for i, r in enumerate(results) if r), reverse=True)[:3]
    print("slowest cases: " + ", ".join("%s %.1fs" % (n, w) for w, n in slow))
    if violations:
        return 1
    if harness_errors or inconclusive or timed_out:
        return 2
    return 0


def parse_args(argv=None):
    import argparse

    ap = argparse.ArgumentParser()
    ap.add_argument("--tier", default=os.environ.get("VERIF_TIER", "quick"), choices=["quick", "thorough"])
    ap.add_argument("--seed", type=int, default=int(os.environ.get("VERIF_SEED", "0")))
    ap.add_argument("--only", default=None, help="substring filter on case names (debugging)")
    return ap.parse_args(argv)
