"""C07 — backward() releases the whole graph and gradients never go stale (DESIGN §3 C07)."""
import gc
import itertools
import sys
import weakref

import numpy as np

from symnp import engine as eng_mod, lib, query, terms as tm
from symnp.scalars import Sym, symarr, terms_of

from . import common, gradcase

PROP = "C07"

STEPS = {
    "bcast-sum": "L = ((x * y).sum(axis=0) + y).sum()",
    "view-exp": "v = x[0]\nL = (v * y).sum() + mg.exp(x).sum()",
    "matmul": "h = x @ y\nL = (h * h).sum()",
    "setitem": "u = x * 2.0\nu[0] = y\nL = (u * u).sum()",
    "view-of-view": "v = x.T\nw = v[1:]\nL = (w * w).sum() + x.sum()",
    "inplace-on-view": "u = +x\nv = u[:, 1:]\nv *= y[1:]\nL = (u * u).sum()",
    "maximum": "L = mg.maximum(x, y).sum()",
    "out-where": "u = x * 1.5\nmg.multiply(u, y, out=u, where=M)\nL = (u * x).sum()",
    "sequence": "L = mg.add_sequence(x, x, y).sum() * mg.multiply_sequence(y, y, y).sum()",
    "einsum": "L = mg.einsum('ij,j->i', x, y).sum() + mg.einsum('ij,ij->', x, x)",
    "softmax": "L = (mg.nnet.activations.softmax(x) * y).sum()",
    "nonscalar": "L = x * y",
    "diamond": "a = x * y\nb = a + a\nc = a * b\nL = (c / (y * y + 1.0)).sum()",
    "shape-assign": "u = x * 1.0\nv = u[0]\nu.shape = (3, 2)\nL = (u * u).sum() + v.sum()",
    "inplace-leaf-view": "xv = x[1]\nL = (xv * y).sum() + x.sum()",
    # chains of views (depth >= 2) that L's graph does not consume, around an in-place update of their family
    "inplace-base-unused-view-chain": "u = x * 1.0\nv = u[:, 1:]\nw = v[0]\nu *= 2.0\nL = (u * u).sum()",
    "inplace-deep-view-unused-middle": "u = +x\nv = u.T\nw = v[1:]\nw *= 2.0\nL = (u * y).sum()",
    "setitem-unused-view-chain": "u = x + 0.0\nv = u[1]\nw = v[::2]\nu[:, :1] = 0.0\nL = (u * u).sum() + w.sum()",
}
BETWEEN = ["none", "null_grad", "view", "nonview-op", "inplace", "other-backward", "advanced-index", "copying-reshape", "as-setitem-value", "view-shape-assign"]
M = np.array([True, False, True])

_REC = {"tensors": [], "ops": [], "on": False}


def _install_recorders(mg):
    from mygrad.operation_base import Operation

    if getattr(mg.Tensor, "_verif_c07", False):
        return
    t_init = mg.Tensor.__init__
    o_init = Operation.__init__

    def tinit(self, *a, **k):
        t_init(self, *a, **k)
        if _REC["on"]:
            _REC["tensors"].append(weakref.ref(self))

    def oinit(self, *a, **k):
        o_init(self, *a, **k)
        if _REC["on"]:
            _REC["ops"].append(weakref.ref(self))

    mg.Tensor.__init__ = tinit
    Operation.__init__ = oinit
    mg.Tensor._verif_c07 = True


def cases(tier):
    out = []
    iters = 2 if tier == "quick" else 3
    for name in STEPS:
        for btw in BETWEEN:
            out.append({"name": "%s/%s" % (name, btw), "step": name, "between": btw, "iters": iters})
    out.append({"name": "stale-view", "stale_view": True})
    out.append({"name": "stale-view-gru", "stale_gru": True})
    return out


# ------------------------------------------------------------------ a view that outlives its graph: its gradient must never come back stale
STALE_VIEWS = ["x[0]", "x[:, 1:]", "x.T", "x.reshape(-1)"]
STALE_INVALIDATE = {"nonview-op": "t2 = x * 1.0", "inplace": "x *= 1.0", "other-backward": "(x.sum() * 2.0).backward()", "null_grad": "x.null_grad()"}
STALE_THEN = {"view-of-it": "w = v[...]", "op-on-it": "w = v * 2.0", "view-of-view": "w = v[...]\nw2 = w[...]"}
STALE_REPLAY = """import sys
import numpy as np
import mygrad as mg
VIEW, INV, THEN = %r, %r, %r
x = mg.Tensor(np.array([[0.5, -1.25, 2.0], [1.5, 0.25, -0.75]])); y = mg.Tensor(np.array([1.25, -0.5, 0.75]))
env = {"mg": mg, "np": np, "x": x, "y": y}
exec("v = " + VIEW, env); v = env["v"]
L = (v * v).sum() * 3.0; L.backward()
old = None if v.grad is None else v.grad.copy()
exec(INV, env)
mid = v.grad
exec(THEN, env)
bad = []
g = v.grad
if old is not None and g is not None and INV != "(x.sum() * 2.0).backward()" and np.array_equal(g, old): bad.append("the stale gradient of the view is readable again")
if mid is None and g is not None: bad.append("v.grad read None after the invalidation and reads %%s after the next use of v" %% (g.tolist(),))
if INV == "(x.sum() * 2.0).backward()" and mid is not None:
    want = eval(VIEW, {"x": x.grad, "np": np})
    if mid.shape != want.shape or not np.array_equal(mid, want): bad.append("after another backward pass v.grad is neither None nor the view of x's new gradient: %%s" %% (mid.tolist(),))
print(bad)
print('REPRODUCED' if bad else 'NOT-REPRODUCED'); sys.exit(1 if bad else 0)
"""


STALE_GRU = """import sys
import numpy as np
import mygrad as mg
from mygrad.nnet.layers import gru
bad = []
for layout in ("C", "F"):
    for view in ("W.T.ravel()", "W.T", "W[::-1]", "W.reshape(-1)"):
        for inv in ("_ = +W", "W.null_grad()", "W *= 1.0", "(W.sum() * 2.0).backward()"):
            rng = np.random.RandomState(0)
            T, N, C, D = 2, 1, 2, 2
            X = mg.tensor(rng.rand(T, N, C))
            P = [mg.tensor(rng.rand(*s)) for s in [(C, D), (D, D), (D,)] * 3]
            W = mg.tensor(np.asfortranarray(rng.rand(D, D)) if layout == "F" else rng.rand(D, D), copy=False); P[1] = W
            try:
                v = eval(view)
            except Exception:
                continue
            gru(X, *P).sum().backward()
            old = None if v.grad is None else v.grad.copy()
            exec(inv)
            g = v.grad
            if inv.endswith(".backward()"):
                want = eval(view.replace("W", "W.grad"))
                if g is not None and (g.shape != want.shape or not np.array_equal(g, want)): bad.append((layout, view, inv, "neither None nor the view of the new gradient"))
            elif g is not None:
                bad.append((layout, view, inv, "the view of a weight of the recurrent layer still reads %s" % (g.tolist(),)))
print(bad)
print('REPRODUCED' if bad else 'NOT-REPRODUCED'); sys.exit(1 if bad else 0)
"""


def run_stale_gru(spec, tier, mg):
    """views of a weight of the recurrent layer (whose backward pass stores gradients itself), C- and F-ordered weights: once the
    weight's gradient is gone the views read None.  A concrete lane on the unpatched library in a child process."""
    res = common.new_result()
    path = common.write_replay(PROP, "stale_gru", STALE_GRU)
    ok, out = common.run_replay(path, count=False)
    res["paths"] = 1
    if ok is True:
        res["status"] = common.VIOLATION
        res["violations"].append({"signature": "stale-view-grad:gru", "replay": path, "summary": "views of a gru weight after the weight's gradient was invalidated: %s" % (out or "")[:300]})
    elif ok is None:
        res["status"] = common.INCONCLUSIVE
        res["notes"].append("gru lane did not run: %s" % (out or "")[-300:])
    res["sample"] = {"lane": "views x invalidations of a C-/F-ordered gru weight"}
    return res


def run_stale_view(spec, tier, mg):
    res = common.new_result()
    findings = []
    for view in STALE_VIEWS:
        for iname, inv in STALE_INVALIDATE.items():
            for tname, then in STALE_THEN.items():
                lib.reset_state()
                res["paths"] += 1
                x = mg.Tensor(symarr("x", (2, 3)))
                y = mg.Tensor(symarr("y", (3,)))
                env = {"mg": mg, "np": np, "x": x, "y": y}
                exec("v = " + view, env)
                v = env["v"]
                L = (v * v).sum() * 3.0
                L.backward()
                old = None if v.grad is None else [t.uid for t in terms_of(v.grad)]
                exec(inv, env)
                mid = v.grad
                exec(then, env)
                g = v.grad
                why = None
                if iname == "other-backward" and mid is not None:
                    # the base received a NEW gradient: the view reads None, or the corresponding view of the new gradient - never the old values
                    want = eval(view, {"x": x.grad, "np": np})
                    if mid.shape != want.shape or [t.uid for t in terms_of(mid)] != [t.uid for t in terms_of(np.asarray(want))]:
                        why = "after `%s` v.grad is neither None nor the view of x's new gradient" % inv
                if why is not None:
                    pass
                elif mid is None and g is not None:
                    why = "v.grad read None after `%s` and is readable again after `%s`" % (inv, then.replace("\n", "; "))
                elif g is not None and old is not None and iname != "other-backward" and [t.uid for t in terms_of(g)] == old:
                    why = "the gradient v had before `%s` is still readable after `%s`" % (inv, then.replace("\n", "; "))
                if why:
                    path = common.write_replay(PROP, gradcase._safe("stale_%s_%s_%s" % (view, iname, tname)), STALE_REPLAY % (view, inv, then))
                    ok, out = common.run_replay(path)
                    if ok:
                        res["status"] = common.VIOLATION
                        res["violations"].append({"signature": "stale-view-grad:%s:%s" % (iname, tname), "replay": path,
                                                  "summary": "`v = %s; L = (v * v).sum() * 3; L.backward(); %s; %s`: %s" % (view, inv, then.replace("\n", "; "), why)})
                    else:
                        findings.append(why)
    lib.reset_state()
    if findings and res["status"] != common.VIOLATION:
        res["status"] = common.INCONCLUSIVE
        res["notes"].append("did not reproduce: %s" % findings[:2])
    res["sample"] = {"views": STALE_VIEWS, "invalidations": list(STALE_INVALIDATE.values()), "next use": list(STALE_THEN.values())}
    return res


def run_case(spec, tier):
    mg = common._WORKER["mg"]
    if spec.get("stale_view"):
        return run_stale_view(spec, tier, mg)
    if spec.get("stale_gru"):
        return run_stale_gru(spec, tier, mg)
    _install_recorders(mg)
    res = common.new_result()
    engine = eng_mod.Engine(skip_ties=True)
    engine.reset_fn = lib.reset_state
    step = STEPS[spec["step"]]
    btw = spec["between"]

    def body():
        findings = []
        x = mg.Tensor(symarr("x", (2, 3)))
        y = mg.Tensor(symarr("y", (3,)))
        x_terms0 = [t.uid for t in terms_of(x.data)]
        grads = []
        gc_was = gc.isenabled()
        gc.disable()
        try:
            for it in range(spec["iters"]):
                _REC["tensors"].clear()
                _REC["ops"].clear()
                _REC["on"] = True
                env = {"mg": mg, "np": np, "x": x, "y": y, "M": M}
                exec(step, env)
                L = env["L"]
                # the tensors upstream of L (walked through creator.variables before the graph is released)
                up, stack = {}, [L]
                while stack:
                    t = stack.pop()
                    if id(t) in up:
                        continue
                    up[id(t)] = weakref.ref(t)
                    if t.creator is not None:
                        stack.extend(t.creator.variables)
                del stack, t
                created = list(up.values())
                L.backward()
                _REC["on"] = False
                # (i) no creator, no recorded consumers, for L and everything upstream
                for r in created:
                    t = r()
                    if t is None:
                        continue
                    if t.creator is not None:
                        findings.append("iteration %d: a tensor keeps its creator after backward()" % it)
                    if t._ops:
                        findings.append("iteration %d: a tensor keeps recorded consumers after backward()" % it)
                for t, n in ((x, "x"), (y, "y")):
                    if t._ops or t.creator is not None:
                        findings.append("iteration %d: leaf %s keeps graph information after backward()" % (it, n))
                grads.append(([None if x.grad is None else tuple(t.uid for t in terms_of(x.grad))],
                              None if x.grad is None else terms_of(x.grad), None if y.grad is None else terms_of(y.grad)))
                # (ii) everything the caller does not reference is freed by reference counting alone
                env.clear()
                del L
                alive_t = [r() for r in _REC["tensors"] if r() is not None and r() is not x and r() is not y]
                alive_o = [r() for r in _REC["ops"] if r() is not None]
                if alive_t:
                    findings.append("iteration %d: %d intermediate/placeholder tensor(s) still alive without a cyclic-GC pass" % (it, len(alive_t)))
                if alive_o:
                    findings.append("iteration %d: %d operation object(s) still alive without a cyclic-GC pass (%s)"
                                    % (it, len(alive_o), type(alive_o[0]).__name__))
                del alive_t, alive_o
                # data never changes across iterations (leaves are only read by the step, or rewritten with equal values)
                # (iii) persistence and nulling of the leaf gradient
                if x.grad is None:
                    findings.append("iteration %d: x.grad is None right after backward()" % it)
                if it == spec["iters"] - 1:
                    break
                if btw == "null_grad":
                    x.null_grad()
                    if x.grad is not None:
                        findings.append("null_grad left a gradient")
                elif btw == "view":
                    vv = x[1:]
                    if x.grad is None or vv.grad is None:
                        findings.append("creating a view discarded the leaf's gradient")
                    elif [t.uid for t in terms_of(vv.grad)] != [t.uid for t in terms_of(x.grad[1:])]:
                        findings.append("view created after backward(): its grad is not the view of the leaf's gradient")
                    t2 = x * 1.0
                    if x.grad is not None or vv.grad is not None:
                        findings.append("leaf entered a non-view op but its (or its view's) old gradient is still readable")
                    t2.clear_graph()
                    del t2, vv
                elif btw == "view-shape-assign":
                    # re-shaping a VIEW of the leaf neither uses nor updates the leaf: its gradient (and that of other views) persists
                    vv, v2 = x[0], x[1:]
                    g_before = None if x.grad is None else [t.uid for t in terms_of(x.grad)]
                    vv.shape = (3, 1)
                    if x.grad is None or [t.uid for t in terms_of(x.grad)] != g_before:
                        findings.append("assigning .shape to a view of the leaf discarded or changed the leaf's gradient")
                    if v2.grad is None:
                        findings.append("assigning .shape to a view of the leaf discarded the gradient of a sibling view")
                    del vv, v2
                elif btw == "nonview-op":
                    t2 = x + y
                    if x.grad is not None or y.grad is not None:
                        findings.append("leaf entered a non-view op but its old gradient is still readable")
                    t2.clear_graph()
                    del t2
                elif btw == "inplace":
                    vv = x[0]
                    x *= 1.0
                    if x.grad is not None or vv.grad is not None:
                        findings.append("leaf was updated in place but its (or its view's) old gradient is still readable")
                    x.clear_graph()
                    del vv
                elif btw in ("advanced-index", "copying-reshape", "as-setitem-value"):
                    # non-view uses of the leaf by operations that CAN return views (their output has a non-None .base)
                    vv = x[0]
                    if btw == "advanced-index":
                        t2 = x[:, [0, 2]]
                    elif btw == "copying-reshape":
                        t2 = mg.reshape(x[:, ::2], (4,)) if False else x[:, [True, False, True]]
                    else:
                        t2 = mg.zeros_like(x)
                        slot = t2[...]
                        slot[...] = x
                    if x.grad is not None or vv.grad is not None:
                        findings.append("leaf entered a non-view operation (%s) but its (or its view's) old gradient is still readable" % btw)
                    t2.clear_graph()
                    x.clear_graph()
                    del t2, vv
                elif btw == "other-backward":
                    (x.sum() * 1.0).backward()
                    if x.grad is None:
                        findings.append("gradient missing after another backward pass")
                    elif x.grad is not None and grads[-1][1] is not None and len(terms_of(x.grad)) == 6:
                        pass
            if [t.uid for t in terms_of(x.data)] != x_terms0:
                findings.append("leaf data changed across iterations")
        finally:
            _REC["on"] = False
            if gc_was:
                gc.enable()
        return findings, grads

    for p in engine.explore(body, max_paths=300, max_seconds=200):
        res["paths"] += 1
        if p.exc is not None:
            res["status"] = common.INCONCLUSIVE
            res["notes"].append("%s: %s" % (type(p.exc).__name__, str(p.exc)[:300]))
            continue
        findings, grads = p.out
        # (iv) iteration identity: structurally identical terms and z3-refuted difference
        g0 = grads[0]
        for it, g in enumerate(grads[1:], 1):
            for which, (a, b) in (("x", (g0[1], g[1])), ("y", (g0[2], g[2]))):
                if (a is None) != (b is None):
                    findings.append("iteration %d: %s.grad None-ness differs from iteration 0" % (it, which))
                    continue
                if a is None:
                    continue
                if [t.uid for t in a] != [t.uid for t in b]:
                    findings.append("iteration %d: %s.grad is not computed by the identical operation sequence (term DAG differs)" % (it, which))
                prob = query.Problem(list(p.pc) + list(p.dom))
                r = prob.differ_any(list(zip(b, a)), 10000)
                res[r.verdict] += 1
                if r.verdict == "sat":
                    findings.append("iteration %d: %s.grad differs in value from iteration 0 (accumulation?)" % (it, which))
                elif r.verdict == "unknown":
                    res["status"] = common.INCONCLUSIVE
        if findings:
            rp = _replay(spec, findings[0])
            if rp:
                res["status"] = common.VIOLATION
                res["violations"].append({"signature": "%s" % findings[0].split(": ", 1)[-1][:50], "replay": rp,
                                          "summary": "step `%s`, between iterations: %s -> %s" % (step.replace("\n", "; "), btw, "; ".join(sorted(set(findings))[:3]))})
            else:
                res["status"] = common.INCONCLUSIVE
                res["notes"].append("did not reproduce: %s" % findings[:2])
            break
    res["sample"] = {"step": step, "between_iterations": btw, "iterations": spec["iters"]}
    return res


def _replay(spec, what):
    src = '''import sys, gc, weakref
import numpy as np
import mygrad as mg
from mygrad.operation_base import Operation
STEP = %r; BTW = %r; ITERS = %d
M = np.array([True, False, True])
rec = {"t": [], "o": [], "on": False}
ti, oi = mg.Tensor.__init__, Operation.__init__
def tinit(self, *a, **k):
    ti(self, *a, **k)
    if rec["on"]: rec["t"].append(weakref.ref(self))
def oinit(self, *a, **k):
    oi(self, *a, **k)
    if rec["on"]: rec["o"].append(weakref.ref(self))
mg.Tensor.__init__ = tinit; Operation.__init__ = oinit
x = mg.Tensor(np.array([[0.5, -1.25, 2.0], [1.5, 0.25, -0.75]])); y = mg.Tensor(np.array([1.25, -0.5, 0.75]))
x0 = x.data.copy()
bad = []; grads = []
gc.disable()
try:
    for it in range(ITERS):
        rec["t"].clear(); rec["o"].clear(); rec["on"] = True
        env = {"mg": mg, "np": np, "x": x, "y": y, "M": M}
        exec(STEP, env)
        L = env["L"]
        up, stack = {}, [L]
        while stack:
            t = stack.pop()
            if id(t) in up: continue
            up[id(t)] = weakref.ref(t)
            if t.creator is not None: stack.extend(t.creator.variables)
        del stack, t
        L.backward(); rec["on"] = False
        for r in up.values():
            t = r()
            if t is not None and (t.creator is not None or t._ops): bad.append("graph info kept")
        del r, t
        grads.append((None if x.grad is None else x.grad.copy(), None if y.grad is None else y.grad.copy()))
        env.clear(); del L
        if [r for r in rec["t"] if r() is not None and r() is not x and r() is not y]: bad.append("tensors alive without gc")
        if [r for r in rec["o"] if r() is not None]: bad.append("ops alive without gc")
        if x.grad is None: bad.append("x.grad None after backward")
        if it == ITERS - 1: break
        if BTW == "null_grad":
            x.null_grad()
            if x.grad is not None: bad.append("null_grad")
        elif BTW == "view":
            vv = x[1:]
            if x.grad is None or vv.grad is None or not np.array_equal(vv.grad, x.grad[1:]): bad.append("view grad")
            t2 = x * 1.0
            if x.grad is not None or vv.grad is not None: bad.append("stale after non-view op")
            t2.clear_graph(); del t2, vv
        elif BTW == "view-shape-assign":
            vv, v2 = x[0], x[1:]; g0 = x.grad.copy()
            vv.shape = (3, 1)
            if x.grad is None or not np.array_equal(x.grad, g0) or v2.grad is None: bad.append("view .shape assignment discarded gradients")
            del vv, v2
        elif BTW == "nonview-op":
            t2 = x + y
            if x.grad is not None or y.grad is not None: bad.append("stale after non-view op")
            t2.clear_graph(); del t2
        elif BTW == "inplace":
            vv = x[0]; x *= 1.0
            if x.grad is not None or vv.grad is not None: bad.append("stale after in-place")
            x.clear_graph(); del vv
        elif BTW in ("advanced-index", "copying-reshape", "as-setitem-value"):
            vv = x[0]
            if BTW == "advanced-index": t2 = x[:, [0, 2]]
            elif BTW == "copying-reshape": t2 = x[:, [True, False, True]]
            else:
                t2 = mg.zeros_like(x); slot = t2[...]; slot[...] = x
            if x.grad is not None or vv.grad is not None: bad.append("stale after non-view use: " + BTW)
            t2.clear_graph(); x.clear_graph(); del t2, vv
        elif BTW == "other-backward":
            (x.sum() * 1.0).backward()
    if not np.array_equal(x.data, x0): bad.append("leaf data changed")
    for g in grads[1:]:
        for a, b in zip(grads[0], g):
            if (a is None) != (b is None) or (a is not None and not np.array_equal(a, b)): bad.append("gradients not bit-identical across iterations")
except Exception as e:
    bad.append("raised %%s: %%s" %% (type(e).__name__, e))
print(sorted(set(bad)))
print('REPRODUCED' if bad else 'NOT-REPRODUCED'); sys.exit(1 if bad else 0)
''' % (STEPS[spec["step"]], spec["between"], spec["iters"])
    path = common.write_replay(PROP, gradcase._safe(spec["name"]), src)
    ok, out = common.run_replay(path)
    return path if ok else None


def main(argv=None):
    args = common.parse_args(argv)
    cs = cases(args.tier)
    if args.only:
        cs = [c for c in cs if args.only in c["name"]]
    describe = dict(
        level="other",
        rule="18 step programs (incl. three with chains of views that L does not consume around an in-place update) and 9 between-iteration actions (the 6 "
             "listed next plus advanced-index, boolean-mask copy and use as a set-item value); originally: 15 step programs (broadcasting, views, views of views, set-item, in-place on views, out=/where=, shape assignment, sequence ops, "
             "einsum, softmax, maximum, diamond) x 6 things done between iterations (nothing, null_grad, view creation, non-view re-use, "
             "in-place update, another backward) x 2 (thorough 3) iterations; every feasible path",
        explanation="(iv) is the solver part: the gradient terms of every later iteration are structurally identical (same unsimplified term DAG "
                    "= same operation sequence, hence bit-identical floats) to iteration 0 and z3 refutes a value difference (catches "
                    "accumulation). (i)-(iii) are concrete heap/graph observations on every path with gc disabled: no creator / consumers "
                    "upstream of L, every intermediate tensor, Operation and placeholder dead by reference counting alone, leaf gradients "
                    "persist until re-use / in-place update / next backward and then read None (also through views)",
        functions=["mygrad.tensor_base.Tensor.clear_graph", "Tensor.backward", "Tensor._op (grad nulling)", "Tensor._in_place_op (grad nulling)",
                   "mygrad._utils.collect_all_tensors_and_clear_grads", "mygrad._utils.duplicating_graph.*"],
        bounds={"iterations": "2 (quick) / 3 (thorough)", "shapes": "x (2,3), y (3,)"},
        assumptions=["CPython reference counting is observed, not encoded", "Tensor.__init__/Operation.__init__ are wrapped harness-side to take weak references"],
        outside=["cyclic-GC timing", "threads"],
    )
    return common.main(PROP, "harness.C07", cs, args.tier, args.seed, describe, deadline_s=900)


if __name__ == "__main__":
    sys.exit(main())
