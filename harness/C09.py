"""C09 — back-propagation through a partially cleared graph fails loudly, never silently (DESIGN §3 C09).

Histories: two/three result tensors sharing upstream tensors; <= 3 (thorough 4) events from {backward / clear_graph on another
result, in-place update of a shared tensor or a view of it, re-use of a shared tensor in a new op, null_grad}; then L.backward().
Outcome must be InvalidBackprop, or exactly the gradients of the computation as recorded (oracle: NumPy twin, as in C05).
"""
import itertools
import os
import sys

import numpy as np

from symnp import engine as eng_mod, lib, terms as tm
from symnp.scalars import symarr

from . import C05, common, gradcase, viewprog as vp

PROP = "C09"

PREFIXES = {
    "direct": ["L = x * k", "z = x * c2"],
    "view": ["xv = x[:2]", "L = xv * k[:2]", "z = x * c2"],
    "sumL": ["L = (x * k).sum()", "z = x[1:] * c2"],
    "inter": ["m = x * k", "L = m * m", "z = m * c2"],
    # the OTHER graph goes through a view of the shared tensor; shared tensor that is a constant (no staleness marker at all)
    "zview": ["L = x * k", "xv = x[:2]", "z = xv * c2"],
    "constshared": ["L = x * kc", "kv = kc[:2]", "z = k[:2] * kv"],
    # L itself is an input of the other graph: back-propagating the other result releases L's own graph
    "Lconsumed": ["L = x * k", "z = (L * c2).sum()"],
    # L reads the shared leaf both directly and through a view of it
    "both": ["xv = x[:2]", "L = (x * k).sum() + (xv * k[:2]).sum()", "z = x * c2"],
}
# tensors upstream of L (a view that only the OTHER graph went through is not: its gradient legitimately reads None)
CHECK_NAMES = {"zview": ("x", "k"), "constshared": ("x",), "Lconsumed": ("x", "k"), "both": ("x", "k", "xv")}
EVENTS = ["z.backward()", "z.clear_graph()", "x[...] = c1", "x[:1] = c1", "xv[...] = c1", "x *= c2", "w = x * c2", "w = k * c2",
          "x.null_grad()", "w = x[::-1]", "w.backward()", "m[...] = c1", "w = m * c2", "k[1:] = c1", "rawwrite(x)", "rawwrite(k)", "rawwrite(m)", "rawwrite(xv)", "rawwrite(kc)", "x.reshape(-1)", "m.reshape(-1)", "kc[...] = c1", "kc[:1] = c1"]
EVENTS_Q = ["z.backward()", "z.clear_graph()", "x[...] = c1", "x[:1] = c1", "xv[...] = c1", "w = x * c2", "x.null_grad()", "w.backward()",
            "m[...] = c1", "w = m * c2", "rawwrite(x)", "rawwrite(k)", "rawwrite(m)", "rawwrite(kc)", "x.reshape(-1)", "kc[...] = c1", "w = x[::-1]"]  # x.reshape(-1): a view whose result is dropped at once


class Setup:
    ALL_NAMES = ("x", "k", "kc", "xv", "kv", "m", "w", "z")
    INIT_NAMES = ("x", "k", "kc")

    def __init__(self, mg):
        self.mg = mg
        self.x = symarr("x", (3,))
        self.k = symarr("k", (3,))
        self.kc = symarr("kc", (3,))
        self.c1 = symarr("c1", ())
        self.c2 = symarr("c2", ())

    def env_mg(self):
        mg = self.mg
        count = [0]

        def rawwrite(t):
            """the caller tries to overwrite the tensor's memory behind MyGrad's back (fresh symbols the twin never sees);
            refused (ValueError: read-only) while the memory guard holds the array"""
            count[0] += 1
            try:
                t.data[...] = symarr("raw%d" % count[0], t.shape)
            except ValueError:
                pass

        return {"mg": mg, "np": np, "x": mg.Tensor(self.x), "k": mg.Tensor(self.k), "kc": mg.Tensor(self.kc, constant=True),
                "c1": np.array(self.c1, dtype=object), "c2": np.array(self.c2, dtype=object), "rawwrite": rawwrite}

    def env_np(self):
        return {"np": np, "x": np.array(self.x, dtype=object), "k": np.array(self.k, dtype=object), "kc": np.array(self.kc, dtype=object), "c1": np.array(self.c1, dtype=object),
                "c2": np.array(self.c2, dtype=object)}


def histories(tier):
    quick = tier == "quick"
    ev = EVENTS_Q if quick else EVENTS
    maxlen = 3 if quick else 4
    out = []
    for pname, prefix in PREFIXES.items():
        defined = {ln.split(" = ")[0] for ln in prefix}
        for n in range(1, maxlen + 1):
            evp = ev if pname != "Lconsumed" else [e for e in ev if e in ("z.backward()", "z.clear_graph()", "x.null_grad()", "w = x * c2", "x[...] = c1", "rawwrite(x)")]
            for seq in itertools.product(evp, repeat=n):
                if n == 4 and (hash(seq) % 4):
                    continue
                names = set(defined)
                ok = True
                for e in seq:
                    tgt = vp._target_name(e) if not e.startswith("w = ") else None
                    used = e.split(".")[0] if "." in e.split("=")[0] and C05.graph_only(e) else None
                    needs = set()
                    for nm in ("xv", "m", "w", "z"):
                        if (" " + nm + "[") in (" " + e) or (nm + ".") in e or (nm + " ") in e.split("= ")[-1] + " " or e.startswith(nm + "["):
                            needs.add(nm)
                    if e.startswith("w = "):
                        needs.discard("w")
                    if e.startswith("rawwrite("):
                        needs = {e[9:-1]} - {"x", "k", "kc"}
                    if "kc" in e and "kc" not in " ".join(prefix):
                        ok = False
                        break
                    if not needs <= names:
                        ok = False
                        break
                    if e.startswith("w = "):
                        names.add("w")
                if not ok:
                    continue
                if len(set(seq)) < len(seq) and "z.backward()" in seq and seq.count("z.backward()") > 1:
                    continue
                out.append((pname, prefix + list(seq)))
    return out


# in-place updates through out= that also carry an explicit constant= (either way): the update of a shared tensor must mark L stale
# whatever flag the statement asks for
CONSTOUT_EVENTS = ["mg.multiply(c1, c2, out=x, constant=True)", "mg.multiply(c1, c2, out=x, constant=False)", "mg.multiply(c1, c2, out=m, constant=True)",
                   "mg.add(x, c1, out=x, constant=True)", "mg.multiply(c1, c2, out=xv, constant=True)"]


def constout_histories(tier):
    out = []
    others = ["z.backward()", "z.clear_graph()", "w = x * c2"]
    for pname in ("direct", "view", "sumL", "inter", "both"):
        prefix = PREFIXES[pname]
        defined = {ln.split(" = ")[0] for ln in prefix}
        for e in CONSTOUT_EVENTS:
            tgt = e.split("out=")[1].split(",")[0]
            if tgt not in defined | {"x"}:
                continue
            # (histories with clear_graph() followed by a re-use are the open known finding of the main family: not repeated here)
            for pre in ((), ("z.backward()",), ("w = x * c2",)):
                for post in ((), ("z.backward()",)):
                    if pre == post == ("z.backward()",):
                        continue
                    out.append((pname, prefix + list(pre) + [e] + list(post)))
    return out


def cases(tier):
    hs = histories(tier)
    out = []
    size = 60
    for i in range(0, len(hs), size):
        out.append({"name": "hist/%d" % i, "progs": hs[i:i + size]})
    hs = constout_histories(tier)
    for i in range(0, len(hs), 30):
        out.append({"name": "constout/%d" % i, "progs": hs[i:i + 30]})
    return out


def replay_source(lines):
    return '''import sys, re
import numpy as np
import mygrad as mg
from mygrad.errors import InvalidBackprop
LINES = %r
INIT = {"x": np.array([1.5, -2.0, 0.75]), "k": np.array([0.5, 3.0, -1.25]), "kc": np.array([0.25, -1.5, 2.0])}
CONST = {"c1": np.array(2.5), "c2": np.array(1.5)}
NAMES = ("x", "k", "kc", "xv", "kv", "m", "w", "z")
def graph_only(l): return any(s in l for s in (".backward(", ".clear_graph(", ".null_grad(", "rawwrite("))
def rawwrite(t):
    try: t.data[...] = 123.0 + np.arange(t.size).reshape(t.shape)
    except ValueError: pass
def tgt(line):
    if "out=" in line: return line.split("out=")[1].split(",")[0].split(")")[0].strip()
    h = line.split("=")[0].strip()
    for s in ("[", ".", " "): h = h.split(s)[0]
    return h
def twin(cut=None):
    A = {"np": np}; A.update({k: v.copy() for k, v in INIT.items()}); A.update(CONST)
    if cut is not None and cut[1] < 0: A[cut[0]][...] = cut[2].reshape(A[cut[0]].shape)
    hist = []
    for i, ln in enumerate(LINES):
        if not graph_only(ln): exec(re.sub(r",\\s*constant=(True|False|None)", "", ln).replace("mg.", "np."), A)
        ip = ("[" in ln.split("=")[0]) or " *= " in ln or "out=" in ln
        if cut is not None and cut[1] == i: A[cut[0]][...] = cut[2].reshape(A[cut[0]].shape)
        hist.append(({n: A[n].copy() for n in NAMES if n in A}, {n: bool(ip and not graph_only(ln) and np.shares_memory(A[tgt(ln)], A[n])) for n in NAMES if n in A}))
    return A, hist
T = {"mg": mg, "np": np, "rawwrite": rawwrite}; T.update({k: mg.Tensor(v, constant=(k == "kc")) for k, v in INIT.items()}); T.update(CONST)
bad = []
outcome = "ok"
try:
    for ln in LINES: exec(ln, T)
    try:
        T["L"].backward()
    except InvalidBackprop:
        outcome = "InvalidBackprop"
except InvalidBackprop as e:
    outcome = "InvalidBackprop-in-history"
except Exception as e:
    bad.append(("raised", type(e).__name__, str(e)[:300])); outcome = "raised"
print("outcome:", outcome)
if outcome == "ok":
    A, hist = twin()
    for n in ("x", "k", "xv", "m"):
        if n not in T or T[n].constant: continue
        idx = -1
        for i, (h, f) in enumerate(hist):
            if n in h and idx < 0 and n not in INIT: idx = i
            if n in h and f.get(n): idx = i
        val = (hist[idx][0][n] if idx >= 0 else INIT[n]).astype(float)
        num = np.zeros(val.size)
        for j in range(val.size):
            e = np.zeros(val.size); e[j] = 1e-6
            Lp = float(np.sum(twin((n, idx, (val.reshape(-1) + e).reshape(val.shape)))[0]["L"]))
            Lm = float(np.sum(twin((n, idx, (val.reshape(-1) - e).reshape(val.shape)))[0]["L"]))
            num[j] = (Lp - Lm) / 2e-6
        g = T[n].grad
        got = np.zeros(val.size) if g is None else np.asarray(g, dtype=float).reshape(-1)
        if got.shape != num.shape or not np.allclose(got, num, rtol=1e-4, atol=1e-5): bad.append((n, "grad", got.tolist(), "gradient of the recorded computation", num.tolist()))
print(bad)
print('REPRODUCED' if bad else 'NOT-REPRODUCED'); sys.exit(1 if bad else 0)
''' % (list(lines),)


def signature(pname, lines, msg, kind="grad"):
    """known-finding key (F1/F7, DESIGN §4): another result's backward()/clear_graph() emptied the consumer sets of the
    shared tensors, and a shared tensor is then RE-USED in a new operation before L.backward(); the re-use refills the
    consumer set, which defeats the only staleness test (Operation.backward: `if not var._ops: raise`)"""
    clear = [i for i, e in enumerate(lines) if e in ("z.backward()", "z.clear_graph()", "w.backward()")]
    reuse = [i for i, e in enumerate(lines) if e.startswith("w = ") or e.endswith(".reshape(-1)")]
    if kind == "grad" and clear and pname == "constshared" and any(e.startswith("kc[") and i > min(clear) for i, e in enumerate(lines)):
        # the shared tensor is a constant (no staleness marker at all) and is updated in place after the other graph was released
        return "const-shared-inplace:" + "; ".join(lines)
    if kind == "grad" and clear and pname == "Lconsumed":
        # after the other result's backward() L has no creator left: L.backward() silently does nothing
        return "terminal-consumed:" + "; ".join(lines)
    if kind == "grad" and clear and any(r > min(clear) for r in reuse):
        # keyed by the exact history: known_findings.json lists the histories of this pattern that give a wrong gradient on the
        # pinned tree; a history of the same pattern that is NOT listed (it was correct there) is reported as a violation
        return "clear->reuse:" + "; ".join(lines)
    return "%s:%s:%s" % (pname, kind, msg[:50])


def run_case(spec, tier):
    mg = common._WORKER["mg"]
    res = common.new_result()
    res["programs"] = 0
    for k, (pname, lines) in enumerate(spec["progs"]):
        res["programs"] += 1
        try:
            r = C05.run_program(mg, None, lines, res, make_setup=lambda: Setup(mg), invalid_backprop_ok=True,
                                check_names=CHECK_NAMES.get(pname, ("x", "k", "xv", "m")))
        except eng_mod.Budget as e:
            r = ("unknown", str(e))
        if r is None:
            continue
        kind, msg = r
        if kind == "exc" and "InvalidBackprop" in msg:
            # raised while replaying the history itself (e.g. w.backward() through a cleared tensor): loud, acceptable
            res["invalid_backprop"] = res.get("invalid_backprop", 0) + 1
            continue
        if kind == "unknown":
            res["status"] = common.INCONCLUSIVE
            res["notes"].append("%s: %s" % ("; ".join(lines), msg))
            continue
        sig = signature(pname, lines, msg, kind)
        if os.environ.get("VERIF_C09_DUMP") and sig.split(":")[0] in ("clear->reuse", "const-shared-inplace", "terminal-consumed"):
            with open(os.environ["VERIF_C09_DUMP"], "a") as f:
                f.write(sig + "\n")
        known = common.match_known(common.load_known(PROP), sig)
        if known is not None and res.get("known_confirmed"):
            res["violations"].append({"signature": sig, "replay": None, "summary": "(same known finding) `%s`" % "; ".join(lines)})
            continue
        path = common.write_replay(PROP, gradcase._safe("%s_%d" % (spec["name"], k)), replay_source(lines))
        ok, out = common.run_replay(path, count=known is None)
        if ok:
            if known is not None:
                res["known_confirmed"] = True
            res["status"] = common.VIOLATION if known is None else res["status"]
            res["violations"].append({"signature": sig, "replay": path,
                                      "summary": "history `%s`: L.backward() raised nothing and %s" % ("; ".join(lines), msg)})
        else:
            res["status"] = common.INCONCLUSIVE
            res["notes"].append("did not reproduce: `%s`: %s :: %s" % ("; ".join(lines), msg, (out or "")[-300:]))
    res["sample"] = {"history": spec["progs"][0][1], "then": "L.backward()"}
    return res


def main(argv=None):
    args = common.parse_args(argv)
    cs = cases(args.tier)
    if args.only:
        cs = [c for c in cs if args.only in c["name"]]

    def extra(results):
        return {"histories": sum(r.get("programs", 0) for r in results if r),
                "ended_in_InvalidBackprop": sum(r.get("invalid_backprop", 0) for r in results if r),
                "a_history_statement_raised_loudly_no_claim": sum(r.get("history_statement_raised", 0) for r in results if r),
                "update_through_a_view_from_before_a_cleared_graph_not_shared_no_claim": sum(r.get("cross_epoch_update_not_shared_no_claim", 0) for r in results if r),
                "examples_of_those": [e for r in results if r for e in r.get("history_statement_raised_examples", [])][:3]}

    describe = dict(
        level="other",
        rule="6 graph shapes (the 4 listed next, plus: the OTHER graph built through a view of the shared leaf; a shared CONSTANT tensor with the other graph "
             "through a view of it); events include raw memory writes `t.data[...] = fresh symbols` that the memory guard must refuse; 4 graph shapes (L from a shared leaf directly / through a view / reduced / through a shared intermediate, with a second result z) "
             "x every sequence of <= 3 events (thorough: + a quarter of the 4-event sequences) from the event list, then L.backward(); "
             "non-trivial = history executed to the end",
        explanation="histories are enumerated; data symbolic. L's forward term is recorded when L is created. Outcome must be "
                    "InvalidBackprop, or for x, k, the view and the intermediate the .grad term must equal (z3, all real inputs) the derivative "
                    "of the recorded computation w.r.t. the tensor's current version (NumPy-twin oracle of C05)",
        functions=["mygrad.operation_base.Operation.backward (InvalidBackprop test)", "Tensor.clear_graph", "Tensor.backward",
                   "Tensor._in_place_op", "mygrad._utils.duplicating_graph.reroute_ops_through"],
        bounds={"events": "<= 3 (quick) / <= 4 strided (thorough)", "tensors": "x, k shape (3,), one view, one intermediate"},
        assumptions=["real arithmetic"], outside=["longer histories", "more than three graphs"], exhaustive=True,
    )
    from symnp import selftest

    return common.main(PROP, "harness.C09", cs, args.tier, args.seed, describe, preflight=selftest.run, extra_evidence=extra,
                       deadline_s=900 if args.tier == "quick" else 3000)


if __name__ == "__main__":
    sys.exit(main())
