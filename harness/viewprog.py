"""Programs over views and in-place updates, with two interpreters: MyGrad tensors and the NumPy twin
(the identical source lines with ``mg.`` -> ``np.`` executed on plain object ndarrays holding the same symbols).

Shared by C04, C05, C06, C07, C09, C13.
"""
import itertools
import re

import numpy as np

from symnp import diff, lib, query, terms as tm, vjp
from symnp.scalars import Sym, symarr, terms_of

# ------------------------------------------------------------------ statement templates
# {d}: new name, {s}: existing tensor name, {t}: in-place target (existing), {o}: another existing name
VIEWS = [
    "{d} = {s}[1:]", "{d} = {s}[::2]", "{d} = {s}[::-1]", "{d} = {s}[0]", "{d} = {s}[..., None]", "{d} = {s}.reshape(3, 2)",
    "{d} = {s}.reshape(-1)", "{d} = {s}.T", "{d} = mg.swapaxes({s}, 0, -1)", "{d} = {s}[:, 1:]", "{d} = {s}[1]", "{d} = {s}[..., :2]",
    "{d} = {s}[-1:]",
]
VIEWS_Q = ["{d} = {s}[1:]", "{d} = {s}[::-1]", "{d} = {s}[0]", "{d} = {s}.reshape(3, 2)", "{d} = {s}.T", "{d} = {s}[..., None]",
           "{d} = {s}[:, 1:]"]
NONVIEWS = ["{d} = {s} * k", "{d} = +{s}", "{d} = {s}.copy()"]
NONVIEWS_Q = ["{d} = {s} * k"]
INPLACE = [
    "{t}[...] = y0", "{t}[0] = c1", "{t}[:1] = c1", "{t}[1:] = y0", "{t}[::2] = k", "{t}[...] = yv", "{t}[0] = yv[0]", "{t}[[0, 0]] = y2",
    "{t}[[0, -1]] = c2", "{t}[Mt] = y0", "{t}[1:] = {o}[:-1]", "{t}[...] = {o}", "{t}[0] = {o}[-1]",
    "{t} *= k", "{t} += y0", "{t} -= c1", "{t} /= k", "{t} **= 2", "{t} += {o}", "{t} *= yv",
    "mg.multiply({t}, k, out={t})", "mg.add({o}, c2, out={t})", "mg.exp({o}, out={t}, where=Mt)", "mg.multiply({o}, y0, out={t}, where=Mt)",
    "mg.multiply({o}, y0, out={t}, where=Mb)", "mg.add({o}, c2, out={t}, where=Mb)", "mg.multiply(k, c2, out={t})",
    "{t}.shape = (3, 2)", "{t}.shape = (6,)", "{t}.shape = (1, 6)",
]
INPLACE_Q = ["{t}[...] = y0", "{t}[1:] = y0", "{t}[0] = c1", "{t}[:1] = c1", "{t}[[0, 0]] = y2", "{t}[Mt] = y0", "{t}[1:] = {o}[:-1]",
             "{t} *= k", "{t} += y0", "mg.multiply({o}, y0, out={t}, where=Mt)", "mg.multiply({o}, y0, out={t}, where=Mb)", "mg.add({o}, c2, out={t})",
             "mg.multiply(k, c2, out={t})", "{t}.shape = (3, 2)"]

BASES = {"flat6": (6,), "mat23": (2, 3), "mat23F": (2, 3), "mat32F": (3, 2)}
F_ORDERED = {"mat23F", "mat32F"}  # the base tensor owns NON C-ordered memory (its data is the transpose of a C-ordered array)


TENSOR_NAMES = ("t", "v", "w", "u", "a", "b")


def is_inplace(line):
    head = line.split("=")[0]
    return ("[" in head) or any(op in line for op in (" *= ", " += ", " -= ", " /= ", " **= ")) or "out=" in line or ".shape =" in line


def twin_line(line):
    # the NumPy twin has no constant flag: `constant=` keywords are dropped
    # Tensor.copy() copies the underlying array as np.copy does (memory layout kept), not as ndarray.copy() (C order)
    line = re.sub(r"\b(\w+)\.copy\(\)", r"np.copy(\1)", line)
    return re.sub(r",\s*constant=(True|False|None)", "", line).replace("mg.", "np.")


class Setup:
    """symbolic inputs shared by both interpreters"""

    def __init__(self, base_shape, mg, f_ordered=False, ro_base=False, const_base=False):
        self.base_shape = base_shape
        self.const_base = const_base  # the base tensor is a constant
        self.f_ordered = f_ordered
        self.ro_base = ro_base  # the base tensor wraps natively read-only memory (copy=False)
        self.t = symarr("t", base_shape[::-1]).T if f_ordered else symarr("t", base_shape)
        self.y0 = symarr("y0", ())
        self.yv = symarr("yv", (base_shape[-1],))
        self.y2 = symarr("y2", (2,))
        self.k = symarr("k", ())
        # literal scalars are 0-d symbolic constants (a bare Python float inside an object array has no .shape/.base)
        self.c1 = symarr("c1", ())
        self.c2 = symarr("c2", ())
        self.q = [symarr("q%d" % i, ()) for i in range(3)]
        self.mg = mg

    def masks(self, env, lib_name):
        pass

    def env_mg(self):
        mg = self.mg
        if self.ro_base:
            ro = np.array(self.t, dtype=object)
            ro.flags.writeable = False
            tbase = mg.Tensor(ro, copy=False)
        else:
            tbase = mg.Tensor(self.t, constant=True) if self.const_base else mg.Tensor(self.t)
        env = {"mg": mg, "np": np, "t": tbase, "y0": mg.Tensor(self.y0), "yv": mg.Tensor(self.yv),
               "y2": mg.Tensor(self.y2), "k": np.array(self.k, dtype=object), "q": self.q,
               "c1": np.array(self.c1, dtype=object), "c2": np.array(self.c2, dtype=object)}
        return env

    def env_np(self):
        env = {"np": np, "t": (np.array(self.t.T, dtype=object).T if self.f_ordered else np.array(self.t, dtype=object)), "y0": np.array(self.y0, dtype=object),
               "yv": np.array(self.yv, dtype=object), "y2": np.array(self.y2, dtype=object), "k": np.array(self.k, dtype=object),
               "q": self.q, "c1": np.array(self.c1, dtype=object), "c2": np.array(self.c2, dtype=object)}
        return env

    def env_float(self):
        rng = np.random.RandomState(1)
        env = {"np": np, "t": ((rng.rand(*self.base_shape[::-1]) + 0.5).T if getattr(self, "f_ordered", False) else rng.rand(*self.base_shape) + 0.5), "y0": np.array(1.25), "yv": rng.rand(self.base_shape[-1]) + 0.5,
               "y2": rng.rand(2) + 0.5, "k": np.array(0.75), "q": [np.array(1.5), np.array(2.5), np.array(3.5)],
               "c1": np.array(2.5), "c2": np.array(1.5)}
        return env


class MaskDict(dict):
    """`Mt` is resolved lazily to a concrete boolean mask of the target's current shape (a mixed pattern)"""


def mask_for(shape):
    n = int(np.prod(shape)) if shape else 1
    m = np.array([(i % 3) != 1 for i in range(n)], dtype=bool).reshape(shape)
    return m


def run_line(line, env, twin=False):
    if "Mt" in line or "Mb" in line:
        # mask of the shape of the in-place target / of its last axis only (broadcast against the target)
        tgt = _target_name(line)
        shp = np.shape(env[tgt].data if hasattr(env[tgt], "data") and not isinstance(env[tgt], np.ndarray) else env[tgt])
        env["Mt"] = mask_for(shp)
        env["Mb"] = mask_for(shp[-1:])
    exec(twin_line(line) if twin else line, env)
    if twin:
        # NumPy hands back a *scalar* where MyGrad has a 0-d tensor; its array counterpart is a 0-d array
        for n in TENSOR_NAMES:
            if n in env and not isinstance(env[n], np.ndarray):
                a = np.empty((), dtype=object if isinstance(env[n], Sym) else None)
                a[()] = env[n]
                env[n] = a


def _target_name(line):
    if "out=" in line:
        return line.split("out=")[1].split(",")[0].split(")")[0].strip()
    head = line.split("=")[0].strip()
    for sep in ("[", ".", " "):
        head = head.split(sep)[0]
    return head




def well_typed(lines, base_shape, f_ordered=False):
    """dry run of the NumPy twin on floats; False if NumPy itself rejects a statement"""
    s = Setup.__new__(Setup)
    s.base_shape = base_shape
    s.f_ordered = f_ordered
    env = Setup.env_float(s)
    try:
        for ln in lines:
            if "[0] = " in ln and np.ndim(env[_target_name(ln)]) == 1:
                # assigning a 0-d *object* array to a scalar slot stores the array object itself (object-dtype
                # quirk without a float counterpart): such statements are outside the symbolic grammar
                return False
            run_line(ln, env, twin=True)
        return True
    except Exception:
        return False


def programs(base, h, quick=True, require_inplace=True, max_views=2):
    """all well-typed programs of exactly h statements"""
    V = VIEWS_Q if quick else VIEWS
    NV = NONVIEWS_Q if quick else NONVIEWS
    IP = INPLACE_Q if quick else INPLACE
    shape = BASES[base]
    fo = base in F_ORDERED
    out = []

    def rec(lines, names, nviews):
        if len(lines) == h:
            if (not require_inplace) or any(is_inplace(l) for l in lines):
                out.append(list(lines))
            return
        new = [n for n in ("v", "w", "u") if n not in names]
        cands = []
        if new and nviews < max_views:
            d = new[0]
            for tpl in V:
                for s in names:
                    cands.append((tpl.format(d=d, s=s), names + [d], nviews + 1))
        if new:
            d = new[0]
            for tpl in NV:
                for s in names:
                    cands.append((tpl.format(d=d, s=s), names + [d], nviews))
        for tpl in IP:
            for t in names:
                if "{o}" in tpl:
                    for o in names:
                        cands.append((tpl.format(t=t, o=o), names, nviews))
                else:
                    cands.append((tpl.format(t=t), names, nviews))
        for ln, nm, nv in cands:
            if well_typed(lines + [ln], shape, fo):
                rec(lines + [ln], nm, nv)

    rec([], ["t"], 0)
    return out


# ------------------------------------------------------------------ paired execution (C04 core)
def ultimate(a):
    while a.base is not None:
        a = a.base
    return a


def live_tensors(env, mg):
    return {n: env[n] for n in TENSOR_NAMES if n in env and isinstance(env[n], mg.Tensor)}


def compare_state(envT, envA, mg, ids, consts, prob_conds=()):
    """returns list of discrepancies between the tensor world and the NumPy twin"""
    bad = []
    T = live_tensors(envT, mg)
    names = sorted(T)
    pairs = []
    for n in names:
        a = envA[n]
        if T[n].shape != a.shape:
            bad.append(("shape", n, "tensor %s, numpy %s" % (T[n].shape, a.shape)))
            continue
        pairs += list(zip(terms_of(T[n].data), terms_of(a)))
        if n in ids and ids[n] != id(T[n]):
            bad.append(("identity", n, "python object changed"))
        if n in consts and consts[n] != T[n].constant:
            bad.append(("constant", n, "constant flag changed to %s" % T[n].constant))
        ub = ultimate(a)
        # (NumPy can return the very array it was given - nothing to squeeze, atleast_1d of a 1-d array, ...: the twin then has two names
        # for ONE object; the tensor created first owns the memory, a later, distinct Tensor object over the same array is a view of it)
        owner = [m for m in TENSOR_NAMES if m in names and envA[m] is ub]
        if ub is a and (owner[0] == n or T[n] is T[owner[0]]):
            if T[n].base is not None:
                bad.append(("base", n, "owner of its memory but .base is not None"))
        elif ub is a:
            # a distinct Tensor over the very array of an earlier one: NumPy's .base says None, the tensor world may also call it a view
            # of the earlier tensor; what must hold is checked below (the two keep sharing memory, values follow the twin)
            if T[n].base is not None and T[n].base is not T[owner[0]]:
                bad.append(("base", n, ".base is neither None nor tensor %s" % owner[0]))
        elif owner:
            if T[n].base is not T[owner[0]]:
                bad.append(("base", n, ".base is not tensor %s" % owner[0]))
    for i, n in enumerate(names):
        for m in names[i + 1:]:
            sa = np.shares_memory(envA[n], envA[m])
            st = np.shares_memory(T[n].data, T[m].data)
            if sa != st:
                bad.append(("shares_memory", n + "," + m, "tensors %s, numpy %s" % (st, sa)))
    return bad, pairs


def values_differ(pairs, conds=()):
    pairs = [(g, r) for g, r in pairs if g is not r]
    if not pairs:
        return "unsat", None
    prob = query.Problem(list(conds))
    r = prob.differ_any(pairs, 10000)
    return r.verdict, r.model
