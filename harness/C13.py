"""C13 — a failed operation leaves no trace (DESIGN §3 C13).

Differential: the C04/C05 programs with a failing statement inserted at every position vs. the same program without it, both
executed in the same run on the same symbols.  After the failure and at the end: data terms, constant flags, base names,
memory-sharing pattern, writeability of every array, lock-table size, final values and all gradients must be identical.
"""
import sys

import numpy as np

from symnp import engine as eng_mod, lib, query, terms as tm
from symnp.scalars import symarr, terms_of

from . import C05, common, gradcase, viewprog as vp

PROP = "C13"

# statements that fail whatever the program looks like: if they are ACCEPTED that is a finding in itself
MUST_FAIL = {"shape-assign-needs-copy", "shape-assign-needs-copy-view", "scalar-overflow", "int-forced-variable"}
FAILING = [
    ("binary-shape", "{s} + BAD7"),
    ("bad-axis", "mg.sum({s}, axis=5)"),
    ("bad-index", "{s}[10]"),
    ("bad-adv-index", "{s}[[0, 9]]"),
    ("bad-reshape", "{s}.reshape(4, 4)"),
    ("bad-transpose", "mg.transpose({s}, 3, 4)"),
    ("setitem-shape", "{s}[...] = BAD7"),
    ("setitem-bad-index", "{s}[10] = c1"),
    ("iop-shape", "{s} *= BAD7"),
    ("out-wrong-shape", "mg.add({s}, c1, out=BAD7T)"),
    ("out-where-shape", "mg.multiply({s}, c1, out={s}, where=BADMASK)"),
    ("shape-assign", "{s}.shape = (4, 4)"),
    ("matmul-shape", "mg.matmul({s}, BAD7)"),
    ("concat-shape", "mg.concatenate([{s}, BAD7.reshape(7, 1)], axis=0)"),
    ("readonly-target", "RO[...] = c1"),
    ("einsum-bad", "mg.einsum('ijk->i', {s})"),
    # rejected only AFTER the forward pass has run (integer result forced non-constant)
    ("int-forced-variable", "mg.add(IT, IT, constant=False)"),
    ("int-view-forced-variable", "mg.multiply(IT[:2], 2, constant=False)"),
    # a Python scalar that does not fit the (small integer) dtype of the other operands (NumPy raises OverflowError)
    ("scalar-overflow", "IT8 + 300"),
    ("scalar-overflow-view", "IT8[:2] * 1000"),
    # functions evaluated in two steps of which only the second fails
    # NumPy refuses to assign a shape that would need a copy (non-contiguous memory): MyGrad must refuse as well, and change nothing
    ("shape-assign-needs-copy", "NC.shape = (6,)"),
    ("shape-assign-needs-copy-view", "NCV.shape = (6,)"),
    ("clip-bad-upper-bound", "mg.clip({s}, c1, BAD7)"),
    ("clip-bad-upper-bound-out", "mg.clip({s}, c1, BAD7, out={s})"),
    # ... the second step fails for a reason other than a shape (which could be validated up front): dtype of the upper bound
    ("clip-upper-bound-dtype-out", "mg.clip(IT, 2, 2.5, out=IT)"),
    ("clip-upper-bound-complex-out", "mg.clip(FT, 1.0, 1j, out=FT)"),
]
# in-place statements that must fail when the memory they would write to is natively read-only
RO_FAILING = [
    ("ro-setitem", "{s}[...] = c1"),
    ("ro-setitem-slice", "{s}[:1] = y0"),
    ("ro-iop", "{s} *= k"),
    ("ro-out", "mg.add({s}, c1, out={s})"),
    ("ro-out-where", "mg.multiply({s}, y0, out={s}, where=Mt)"),
]


def cases(tier):
    quick = tier == "quick"
    out = []
    for base in ("flat6", "mat23"):
        progs = []
        for h in ((1, 2) if quick else (1, 2, 3)):
            ps = vp.programs(base, h, quick=True, require_inplace=False)
            if h == 3:
                ps = ps[::7]
            for p in ps:
                for q in C05.with_consumers(p, quick)[-2:] if any(vp.is_inplace(l) for l in p) else [p + ["r1 = (t * t * q[1]).sum()", "L = r1 * 1"]]:
                    progs.append(q)
        items = []
        for pi, prog in enumerate(progs):
            nstmt = len(prog) - 2  # statements before the final consumer
            for pos in range(0, nstmt + 1):
                for fi, (fname, ftpl) in enumerate(FAILING):
                    if quick and (pi + pos + fi) % 3:
                        continue
                    items.append((prog, pos, fname))
        size = 120
        for i in range(0, len(items), size):
            out.append({"name": "%s/%d" % (base, i), "base": base, "items": items[i:i + size]})
        # read-only base: programs made of views / non-view ops and consumers only; every in-place statement fails
        items = []
        for h in (1, 2):
            for p in vp.programs(base, h, quick=quick, require_inplace=False):
                if any(vp.is_inplace(l) for l in p):
                    continue
                names = ["t"] + [l.split(" = ")[0] for l in p]
                prog = list(p) + ["r0 = (%s * q[0]).sum()" % names[-1], "r1 = (t * t * q[1]).sum()", "L = r1 + r0"]
                for pos in range(0, len(p) + 2):
                    for fname, _ in RO_FAILING:
                        items.append((prog, pos, fname))
        for i in range(0, len(items), size):
            out.append({"name": "%s-ro/%d" % (base, i), "base": base, "ro": True, "items": items[i:i + size]})
    return out + after_cases(tier)


# ---- failures AFTER a backward pass: gradients exist, the views' graphs are cleared and their bases linger --------------------------------
AFTER_FAILING = [
    ("setitem-shape", "{s}[...] = BAD7"), ("setitem-bad-index", "{s}[10] = c1"), ("iop-shape", "{s} *= BAD7"),
    ("out-wrong-shape-tensor", "mg.add({s}, c1, out=BAD7M)"), ("out-where-shape", "mg.multiply({s}, c1, out={s}, where=BADMASK)"),
    ("shape-assign", "{s}.shape = (4, 4)"), ("bad-reshape", "{s}.reshape(4, 4)"), ("binary-shape", "{s} + BAD7"), ("bad-index", "{s}[10]"),
    # a view whose result is refused only after the forward pass (integer result forced non-constant), taken from a view whose graph was cleared
    ("int-view-forced-variable", "mg.reshape(ITV, (2, 1), constant=False)"),
    ("int-view-forced-variable-getitem", "ITV[::-1].astype(int, constant=False) if False else mg.transpose(ITV, constant=False)"),
]


def after_cases(tier):
    out = []
    for base in ("flat6", "mat23"):
        items = []
        for h in (1, 2):
            for p in vp.programs(base, h, quick=True, require_inplace=False):
                if any(vp.is_inplace(l) for l in p):
                    continue
                names = ["t"] + [l.split(" = ")[0] for l in p]
                # the last tensor of the program is on the path of the first backward pass, or only the base is
                for consumer in ("L = (%s * q[0]).sum()" % names[-1], "L = (t * t * q[1]).sum()"):
                    for si in range(len(names)):
                        for fname, _ in AFTER_FAILING:
                            if fname.startswith("int-view") and si:
                                continue
                            items.append((list(p) + [consumer], si, fname))
                            if consumer.startswith("L = (t * t") and fname in ("setitem-shape", "iop-shape", "out-where-shape") and si:
                                # ... and a NEW view of the base is taken after the backward pass: the base lists it, no longer the old views
                                items.append((list(p) + [consumer, "#NEWVIEW"], si, fname))
        if tier == "quick":
            items = items[::2]
        for i in range(0, len(items), 60):
            out.append({"name": "%s-after/%d" % (base, i), "base": base, "after": True, "items": items[i:i + 60]})
    return out


def _after_snapshot(T, mg, names):
    snap = {}
    for n in names:
        t = T[n]
        b = [m for m in names if T[m] is t.base]
        g = t.grad
        snap[n] = dict(uids=tuple(getattr(x, "uid", x) for x in terms_of(t.data)) if t.data.dtype == object else tuple(t.data.reshape(-1).tolist()),
                       shape=t.shape, constant=t.constant, base=b[0] if b else (None if t.base is None else "<unnamed>"),
                       has_creator=t.creator is not None, n_ops=sum(1 for r_ in t._ops if r_() is not None),
                       grad=None if g is None else (tuple(getattr(x, "uid", x) for x in terms_of(g)) if g.dtype == object else tuple(np.asarray(g).reshape(-1).tolist())),
                       grad_shares=tuple(bool(g is not None and T[m].grad is not None and np.shares_memory(g, T[m].grad)) for m in names),
                       shares=tuple(bool(np.shares_memory(t.data, T[m].data)) for m in names))
    return snap


def run_after(mg, base, prog, si, fname, res):
    engine = eng_mod.Engine(skip_ties=True)
    engine.reset_fn = lib.reset_state
    shape = vp.BASES[base]
    ftpl = dict(AFTER_FAILING)[fname]

    def execute(with_failure):
        S = vp.Setup(shape, mg)
        T = S.env_mg()
        T["BAD7"] = np.ones(7)
        T["BAD7M"] = mg.Tensor(np.ones(7))
        T["BADMASK"] = np.ones(7, dtype=bool)
        T["IT"] = mg.Tensor(np.array([1, 2, 3]))
        for ln in prog:
            if not ln.startswith("#"):
                vp.run_line(ln, T)
        T["L"].backward()
        if "#NEWVIEW" in prog:
            T["u"] = T["t"][1:]
        T["ITV"] = T["IT"][:2]
        T["ITV"].backward()
        names = sorted(vp.live_tensors(T, mg)) + ["IT", "ITV"]
        raised = None
        if with_failure:
            tnames = ["t"] + [l.split(" = ")[0] for l in prog if " = " in l and not l.startswith("L =")]
            s_ = tnames[si]
            try:
                vp.run_line(ftpl.format(s=s_, t=s_), T)
                raised = False
            except Exception as e:  # the statement is expected to fail
                raised = type(e).__name__
        snap = _after_snapshot(T, mg, names)
        # a second pass over the base: what the program finally produces
        L2 = (T["t"] * T["q"][2]).sum()
        L2.backward()
        final = _after_snapshot(T, mg, names)
        return dict(raised=raised, snap=snap, final=final)

    def body():
        a = execute(True)
        lib.reset_state()
        b = execute(False)
        return a, b

    for p in engine.explore(body, max_paths=10, max_seconds=60):
        res["paths"] += 1
        if p.exc is not None:
            return "harness", "%s: %s" % (type(p.exc).__name__, p.exc)
        a, b = p.out
        if not a["raised"]:
            res["not_failing"] = res.get("not_failing", 0) + 1
            return None
        for key in ("snap", "final"):
            if a[key] != b[key]:
                d0 = [n for n in a[key] if a[key][n] != b[key].get(n)][0]
                fields = [f for f in a[key][d0] if a[key][d0][f] != b[key][d0][f]]
                return "state", "%s the failure, tensor %s differs in %s" % ("right after" if key == "snap" else "after a further backward pass following", d0, fields)
        res["unsat"] += 1  # (structural identity of all value and gradient terms: nothing left for the solver)
    return None


def after_replay_source(base, prog, si, fname):
    shape = vp.BASES[base]
    return '''import sys
import numpy as np
import mygrad as mg
PROG = %r; SI = %d; FTPL = %r
TN = ("t", "v", "w", "u", "a", "b", "IT", "ITV")
def snap(T):
    live = [n for n in TN if n in T and isinstance(T[n], mg.Tensor)]
    s = {}
    for n in live:
        t = T[n]; b = [m for m in live if T[m] is t.base]
        s[n] = (t.data.tolist(), t.constant, b[0] if b else (None if t.base is None else "?"), t.creator is not None, sum(1 for r_ in t._ops if r_() is not None),
                None if t.grad is None else t.grad.tolist(), tuple(bool(np.shares_memory(t.data, T[m].data)) for m in live))
    return s
def run(fail):
    rng = np.random.RandomState(1)
    T = {"mg": mg, "np": np, "t": mg.Tensor(rng.rand(*%r) + 0.5), "y0": mg.Tensor(1.25), "yv": mg.Tensor(rng.rand(%d) + 0.5), "y2": mg.Tensor(rng.rand(2) + 0.5),
         "k": np.array(0.75), "c1": np.array(2.5), "c2": np.array(1.5), "q": [np.array(1.5), np.array(2.5), np.array(3.5)],
         "BAD7": np.ones(7), "BAD7M": mg.Tensor(np.ones(7)), "BADMASK": np.ones(7, dtype=bool), "IT": mg.Tensor(np.array([1, 2, 3]))}
    for ln in PROG:
        if not ln.startswith("#"): exec(ln, T)
    T["L"].backward()
    if "#NEWVIEW" in PROG: T["u"] = T["t"][1:]
    T["ITV"] = T["IT"][:2]; T["ITV"].backward()
    raised = []
    if fail:
        s = (["t"] + [l.split(" = ")[0] for l in PROG if " = " in l and not l.startswith("L =")])[SI]
        try: exec(FTPL.format(s=s, t=s), T)
        except Exception as e: raised.append(type(e).__name__)
    s1 = snap(T)
    (T["t"] * T["q"][2]).sum().backward()
    return raised, s1, snap(T)
ra, a1, a2 = run(True)
rb, b1, b2 = run(False)
bad = []
if ra:
    if a1 != b1: bad.append(("state right after the failure", [(n, a1[n], b1.get(n)) for n in a1 if a1[n] != b1.get(n)][:2]))
    if a2 != b2: bad.append(("state after a further backward pass", [n for n in a2 if a2[n] != b2.get(n)]))
print("raised:", ra); print(bad)
print('REPRODUCED' if bad else 'NOT-REPRODUCED'); sys.exit(1 if bad else 0)
''' % (list(prog), si, dict(AFTER_FAILING)[fname], shape, shape[-1])


def live_names(lines, upto):
    names = ["t"]
    for ln in lines[:upto]:
        if not vp.is_inplace(ln) and " = " in ln and not ln.startswith(("r0", "r1", "L")):
            names.append(ln.split(" = ")[0])
    return names


def snapshot(env, mg):
    import mygrad._utils.lock_management as lm

    T = vp.live_tensors(env, mg)
    names = sorted(T)
    snap = {}
    for n in names:
        t = T[n]
        base = [m for m in names if T[m] is t.base]
        snap[n] = dict(uids=tuple(x.uid for x in terms_of(t.data)), shape=t.shape, constant=t.constant,
                       base=base[0] if base else (None if t.base is None else "<unnamed>"),
                       writeable=bool(t.data.flags.writeable), has_creator=t.creator is not None, n_ops=sum(1 for r_ in t._ops if r_() is not None),
                       n_view_children=len(list(t._view_children)),
                       shares=tuple(bool(np.shares_memory(t.data, T[m].data)) for m in names))
    snap["__locks__"] = len(lm._array_counter)
    return snap


def run_item(mg, base, prog, pos, fname, res, ro=False):
    engine = eng_mod.Engine(skip_ties=True)
    engine.reset_fn = lib.reset_state
    shape = vp.BASES[base]
    ftpl = dict(FAILING + RO_FAILING)[fname]

    def execute(with_failure):
        S = vp.Setup(shape, mg, ro_base=ro)
        T = S.env_mg()
        T["BAD7"] = np.ones(7)
        T["BAD7T"] = np.ones(7)
        T["BADMASK"] = np.ones(7, dtype=bool)
        ro_arr = np.array(symarr("ro", (2,)), dtype=object)
        ro_arr.flags.writeable = False
        T["RO"] = mg.Tensor(ro_arr, copy=False, constant=False)
        T["IT"] = mg.Tensor(np.array([1, 2, 3]))
        T["IT8"] = mg.Tensor(np.array([1, 2, 3], dtype=np.uint8))
        T["FT"] = mg.Tensor(np.array([0.5, 1.5, 2.5]))  # ordinary floats: comparisons on it do not fork
        T["NC"] = mg.Tensor(np.arange(6.0).reshape(2, 3).T)  # owner of non-C-ordered memory, shape (3, 2)
        T["NCB"] = mg.Tensor(np.arange(6.0).reshape(2, 3))
        T["NCV"] = T["NCB"].T  # non-contiguous view
        raised = None
        snap_after = None
        for i, ln in enumerate(prog):
            if i == pos:
                names = live_names(prog, pos)
                if with_failure:
                    s = names[-1 - (pos % 2 if len(names) > 1 else 0)]
                    try:
                        vp.run_line(ftpl.format(s=s, t=s), T)
                        raised = False
                    except Exception as e:  # the statement is expected to fail
                        raised = type(e).__name__
                snap_after = snapshot(T, mg)
            vp.run_line(ln, T)
        if pos >= len(prog):
            snap_after = snapshot(T, mg)
        L = T["L"]
        Lterms = terms_of(L.data)
        L.backward()
        grads = {n: (None if T[n].grad is None else terms_of(T[n].grad)) for n in vp.TENSOR_NAMES + C05.LEAVES
                 if n in T and isinstance(T[n], mg.Tensor)}
        final = snapshot(T, mg)
        ro_ok = (not T["RO"].data.flags.writeable) and bool(T["IT"].data.flags.writeable) and bool(T["IT8"].data.flags.writeable)
        ro_ok = ro_ok and T["IT"].data.tolist() == [1, 2, 3] and T["IT"].creator is None and T["IT8"].data.tolist() == [1, 2, 3]
        ro_ok = ro_ok and T["FT"].data.tolist() == [0.5, 1.5, 2.5] and T["FT"].creator is None
        ro_ok = ro_ok and T["NC"].shape == (3, 2) and T["NCV"].shape == (3, 2) and T["NCV"].base is T["NCB"] and bool(np.shares_memory(T["NCV"].data, T["NCB"].data))
        return dict(raised=raised, snap=snap_after, Lterms=Lterms, grads=grads, final=final, ro_ok=ro_ok)

    def body():
        a = execute(True)
        lib.reset_state()
        b = execute(False)
        return a, b

    for p in engine.explore(body, max_paths=40, max_seconds=60):
        res["paths"] += 1
        if p.exc is not None:
            return "harness", "%s: %s" % (type(p.exc).__name__, p.exc)
        a, b = p.out
        if a["raised"] is None or a["raised"] is False:
            if fname in MUST_FAIL and a["raised"] is False:
                return "state", "the statement `%s` was accepted although NumPy rejects the same statement" % ftpl
            res["not_failing"] = res.get("not_failing", 0) + 1
            return None  # the inserted statement did not fail for this target: nothing to check
        for key in ("snap", "final"):
            if a[key] != b[key]:
                diffs = [n for n in a[key] if a[key][n] != b[key].get(n)]
                d0 = diffs[0]
                if d0 == "__locks__":
                    return "state", "%s: lock table has %s entries, %s without the failing statement" % (key, a[key][d0], b[key][d0])
                fields = [f for f in a[key][d0] if a[key][d0][f] != b[key][d0][f]]
                return "state", "%s the failure tensor %s differs in %s" % ("right after" if key == "snap" else "at the end,", d0, fields)
        if not a["ro_ok"]:
            return "state", "natively read-only array became writeable, or the integer operand of the failed call stayed locked / changed its values"
        prob = query.Problem(list(p.pc) + list(p.dom))
        pairs = list(zip(a["Lterms"], b["Lterms"]))
        for n in a["grads"]:
            ga, gb = a["grads"][n], b["grads"].get(n)
            if (ga is None) != (gb is None):
                return "grad", "%s.grad is %s with the failing statement and %s without" % (n, "None" if ga is None else "set", "None" if gb is None else "set")
            if ga is not None:
                if len(ga) != len(gb):
                    return "grad", "%s.grad shape differs" % n
                pairs += list(zip(ga, gb))
        r = prob.differ_any(pairs, 10000)
        res[r.verdict] += 1
        if r.verdict == "sat":
            return "grad", "final values or gradients differ from the program without the failing statement"
        if r.verdict == "unknown":
            return "unknown", "solver"
    return None


def replay_source(base, prog, pos, fname, ro=False):
    shape = vp.BASES[base]
    return '''import sys
import numpy as np
import mygrad as mg
import mygrad._utils.lock_management as lm
def mask_for(shape):
    n = int(np.prod(shape)) if shape else 1
    return np.array([(i %% 3) != 1 for i in range(n)], dtype=bool).reshape(shape)
def tgt(line):
    if "out=" in line: return line.split("out=")[1].split(",")[0].split(")")[0].strip()
    h = line.split("=")[0].strip()
    for s in ("[", ".", " "): h = h.split(s)[0]
    return h
PROG = %r; POS = %d; FTPL = %r; NAMES_AT = %r; RO_BASE = %r; MUST_FAIL = %r
TN = ("t", "v", "w", "u", "y0", "yv", "y2")
def snap(T):
    live = [n for n in TN if n in T and isinstance(T[n], mg.Tensor)]
    s = {}
    for n in live:
        t = T[n]; b = [m for m in live if T[m] is t.base]
        s[n] = (t.data.tolist(), t.constant, b[0] if b else (None if t.base is None else "?"), bool(t.data.flags.writeable), t.creator is not None,
                sum(1 for r_ in t._ops if r_() is not None), tuple(bool(np.shares_memory(t.data, T[m].data)) for m in live))
    s["locks"] = len(lm._array_counter)
    return s
def run(fail):
    rng = np.random.RandomState(1)
    t0 = rng.rand(*%r) + 0.5
    if RO_BASE: t0.flags.writeable = False
    T = {"mg": mg, "np": np, "t": mg.Tensor(t0, copy=not RO_BASE), "y0": mg.Tensor(1.25), "yv": mg.Tensor(rng.rand(%d) + 0.5), "y2": mg.Tensor(rng.rand(2) + 0.5),
         "k": np.array(0.75), "c1": np.array(2.5), "c2": np.array(1.5), "q": [np.array(1.5), np.array(2.5), np.array(3.5)],
         "BAD7": np.ones(7), "BAD7T": np.ones(7), "BADMASK": np.ones(7, dtype=bool)}
    ro = np.array([1.0, 2.0]); ro.flags.writeable = False
    T["RO"] = mg.Tensor(ro, copy=False)
    T["IT"] = mg.Tensor(np.array([1, 2, 3])); T["IT8"] = mg.Tensor(np.array([1, 2, 3], dtype=np.uint8)); T["FT"] = mg.Tensor(np.array([0.5, 1.5, 2.5]))
    T["NC"] = mg.Tensor(np.arange(6.0).reshape(2, 3).T); T["NCB"] = mg.Tensor(np.arange(6.0).reshape(2, 3)); T["NCV"] = T["NCB"].T
    raised = []; s1 = None
    for i, ln in enumerate(PROG):
        if i == POS:
            if fail:
                s = NAMES_AT[-1 - (POS %% 2 if len(NAMES_AT) > 1 else 0)]
                if "Mt" in FTPL: T["Mt"] = mask_for(T[s].shape)
                try: exec(FTPL.format(s=s, t=s), T)
                except Exception as e: raised.append(type(e).__name__)
            s1 = snap(T)
        if "Mt" in ln: T["Mt"] = mask_for(T[tgt(ln)].shape)
        exec(ln, T)
    T["L"].backward()
    g = {n: (None if T[n].grad is None else T[n].grad.tolist()) for n in TN if n in T and isinstance(T[n], mg.Tensor)}
    return raised, s1, snap(T), float(np.sum(T["L"].data)), g, T["RO"].data.flags.writeable or T["FT"].data.tolist() != [0.5, 1.5, 2.5] or T["FT"].creator is not None or T["IT"].data.tolist() != [1, 2, 3] or T["IT"].creator is not None or not T["IT"].data.flags.writeable or not T["IT8"].data.flags.writeable or T["NC"].shape != (3, 2) or T["NCV"].shape != (3, 2) or not np.shares_memory(T["NCV"].data, T["NCB"].data) or T["NCV"].base is not T["NCB"]
ra, a1, a2, La, ga, roa = run(True)
for k_ in list(lm._array_counter): pass
lm._array_counter.clear(); lm._array_tracker.clear(); lm._views_waiting_for_unlock.clear()
rb, b1, b2, Lb, gb, rob = run(False)
bad = []
if not ra and MUST_FAIL: bad.append("the failing statement was accepted")
if ra:
    if a1 != b1: bad.append(("state right after the failure", [n for n in a1 if a1[n] != b1.get(n)]))
    if a2 != b2: bad.append(("final state", [n for n in a2 if a2[n] != b2.get(n)]))
    if La != Lb or ga != gb: bad.append(("values/gradients", ga, gb))
    if roa: bad.append("read-only array became writeable / integer operand of the failed call still locked")
print("raised:", ra); print(bad)
print('REPRODUCED' if bad else 'NOT-REPRODUCED'); sys.exit(1 if bad else 0)
''' % (list(prog), pos, dict(FAILING + RO_FAILING)[fname], live_names(prog, pos), bool(ro), fname in MUST_FAIL, shape, shape[-1])


def run_case(spec, tier):
    mg = common._WORKER["mg"]
    res = common.new_result()
    res["programs"] = 0
    if spec.get("after"):
        for k, (prog, si, fname) in enumerate(spec["items"]):
            res["programs"] += 1
            try:
                r = run_after(mg, spec["base"], prog, si, fname, res)
            except eng_mod.Budget as e:
                r = ("unknown", str(e))
            if r is None:
                continue
            kind, msg = r
            desc = "program `%s`; backward(); then the failing statement `%s` on tensor #%d" % ("; ".join(prog), dict(AFTER_FAILING)[fname], si)
            if kind in ("unknown", "harness"):
                res["status"] = common.INCONCLUSIVE
                res["notes"].append("%s: %s" % (desc, msg))
                continue
            path = common.write_replay(PROP, gradcase._safe("%s_%d" % (spec["name"], k)), after_replay_source(spec["base"], prog, si, fname))
            ok, out = common.run_replay(path)
            if ok:
                res["status"] = common.VIOLATION
                res["violations"].append({"signature": "after:%s:%s" % (fname, msg[:40]), "replay": path, "summary": "%s: %s" % (desc, msg)})
            else:
                res["status"] = common.INCONCLUSIVE
                res["notes"].append("did not reproduce: %s: %s :: %s" % (desc, msg, (out or "")[-300:]))
        prog, si, fname = spec["items"][0]
        res["sample"] = {"program": prog, "then": "backward()", "failing_statement": dict(AFTER_FAILING)[fname], "target": si}
        return res
    for k, (prog, pos, fname) in enumerate(spec["items"]):
        res["programs"] += 1
        try:
            r = run_item(mg, spec["base"], prog, pos, fname, res, ro=spec.get("ro", False))
        except eng_mod.Budget as e:
            r = ("unknown", str(e))
        if r is None:
            continue
        kind, msg = r
        if kind in ("unknown", "harness"):
            res["status"] = common.INCONCLUSIVE
            res["notes"].append("%s @%d %s: %s" % ("; ".join(prog), pos, fname, msg))
            continue
        path = common.write_replay(PROP, gradcase._safe("%s_%d" % (spec["name"], k)), replay_source(spec["base"], prog, pos, fname, spec.get("ro", False)))
        ok, out = common.run_replay(path)
        if ok:
            res["status"] = common.VIOLATION
            res["violations"].append({"signature": "%s:%s" % (fname, msg[:40]), "replay": path,
                                      "summary": "program `%s`%s, failing statement `%s` inserted before statement %d: %s"
                                      % ("; ".join(prog), " on a natively read-only base" if spec.get("ro") else "", dict(FAILING + RO_FAILING)[fname], pos + 1, msg)})
        else:
            res["status"] = common.INCONCLUSIVE
            res["notes"].append("did not reproduce: `%s` @%d %s: %s :: %s" % ("; ".join(prog), pos, fname, msg, (out or "")[-300:]))
    prog, pos, fname = spec["items"][0]
    res["sample"] = {"program": prog, "failing_statement": dict(FAILING + RO_FAILING)[fname], "inserted_before_statement": pos + 1}
    return res


def main(argv=None):
    args = common.parse_args(argv)
    cs = cases(args.tier)
    if args.only:
        cs = [c for c in cs if args.only in c["name"]]

    def extra(results):
        return {"fault_injections": sum(r.get("programs", 0) for r in results if r),
                "injected_statement_did_not_fail": sum(r.get("not_failing", 0) for r in results if r)}

    describe = dict(
        level="other",
        rule="C04-grammar programs of <= 2 (thorough: + strided 3) statements plus consumers; a failing statement of each of 20 kinds (the 16 listed next, plus an integer result forced non-constant - refused only after the "
             "forward pass - and a Python scalar overflowing a small integer dtype, each on a tensor and on a view); on a natively read-only base, "
             "each of 5 in-place statements; originally: 16 kinds "
             "(shape-incompatible op, bad axis/index/reshape/transpose/einsum, failing item/augmented assignment on base or view, wrong out=, "
             "wrong where=, bad .shape, natively read-only target) inserted at every position, targeting the two youngest live tensors; "
             "quick keeps every third (program, position, kind) triple",
        explanation="differential in one run: the program with the failing statement vs. without it, on the same symbols; right after the failure "
                    "and at the end the structural state of every live tensor (data terms, constant, base, consumers, creator, sharing pattern, "
                    "writeability, lock-table size) must be identical and z3 decides that final values and all gradients are equal",
        functions=["mygrad.tensor_base.Tensor._op (try/except releasing locks)", "Tensor._in_place_op (restore_old_graph)",
                   "mygrad._utils.duplicating_graph.DuplicatingGraph.restore_old_graph", "mygrad._utils.lock_management.release_writeability_lock_on_op"],
        bounds={"program length": "<= 2 (+3 strided)", "fault kinds": len(FAILING)},
        assumptions=["same-run differential: identical symbols in both executions"], outside=["failures inside backward()"], exhaustive=False,
    )
    return common.main(PROP, "harness.C13", cs, args.tier, args.seed, describe, extra_evidence=extra,
                       deadline_s=900 if args.tier == "quick" else 3000)


if __name__ == "__main__":
    sys.exit(main())
