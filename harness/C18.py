"""C18 — save/load round-trips a tensor's data, dtype and gradient (DESIGN §3 C18).

Logic lane (symbolic): the real `_io.save` / `_io.load` run with numpy.savez / numpy.load replaced by a contract stub (an
in-memory store returning arrays equal in value, shape and dtype - the documented contract of .npz); tensors hold symbolic data.
Dtype lane (real files): concrete bool/int/float16/32/64 data through a real path and a real BytesIO.
"""
import io
import os
import sys
import tempfile

import numpy as np

from symnp import engine as eng_mod, lib, query, terms as tm
from symnp.scalars import Sym, symarr, terms_of

from . import common, gradcase

PROP = "C18"

KINDS = ["plain", "with-grad", "view-with-grad", "constant", "0d", "0d-with-grad", "empty", "empty-with-grad", "non-contiguous", "with-graph",
         "grad-then-null", "nonscalar-seeded-grad", "view-of-base-with-grad"]


class _Store:
    """contract stub of numpy.savez / numpy.load: keeps equal copies keyed by the file handle"""

    def __init__(self):
        self.files = {}
        self.calls = []

    def savez(self, file, **arrays):
        self.calls.append(("savez", sorted(arrays)))
        self.files[id(file) if not isinstance(file, str) else file] = {k: np.array(v, copy=True) for k, v in arrays.items()}

    def load(self, file):
        self.calls.append(("load",))
        return self.files[id(file) if not isinstance(file, str) else file]


class _NpStub:
    def __init__(self, store, real):
        self._s = store
        self._real = real

    def __getattr__(self, n):
        return getattr(self._real, n)

    def savez(self, file, **k):
        return self._s.savez(file, **k)

    def load(self, file, *a, **k):
        return self._s.load(file)


def make_tensor(mg, kind, mk):
    """mk(name, shape) -> ndarray of data (symbolic or concrete)"""
    if kind == "plain":
        return mg.Tensor(mk("a", (2, 3)))
    if kind == "with-grad":
        t = mg.Tensor(mk("a", (2, 3)))
        (t * t).sum().backward()
        return t
    if kind == "view-with-grad":
        b = mg.Tensor(mk("a", (2, 3)))
        v = b[:, 1:]
        (b * b).sum().backward()
        v._keepalive = b
        return v
    if kind == "view-of-base-with-grad":
        b = mg.Tensor(mk("a", (4,)))
        v = b[::2]
        (v * 3.0).sum().backward()
        v._keepalive = b
        return v
    if kind == "constant":
        return mg.Tensor(mk("a", (3,)), constant=True)
    if kind == "0d":
        return mg.Tensor(mk("a", ()))
    if kind == "0d-with-grad":
        t = mg.Tensor(mk("a", ()))
        (t * t).backward()
        return t
    if kind == "empty":
        return mg.Tensor(mk("a", (0, 2)))
    if kind == "empty-with-grad":
        t = mg.Tensor(mk("a", (0, 2)))
        (t * 2.0).sum().backward()
        return t
    if kind == "non-contiguous":
        t = mg.Tensor(mk("a", (3, 2)).T)
        (t * t).sum().backward()
        return t
    if kind == "with-graph":
        t = mg.Tensor(mk("a", (2,)))
        u = t * 2.0
        u._keepalive = t
        return u
    if kind == "grad-then-null":
        t = mg.Tensor(mk("a", (2,)))
        (t * t).sum().backward()
        t.null_grad()
        return t
    if kind == "nonscalar-seeded-grad":
        t = mg.Tensor(mk("a", (2, 2)))
        (t * 1.0).backward(mk("g", (2, 2)))
        return t
    raise KeyError(kind)


def cases(tier):
    out = [{"kind": "logic", "name": "logic/%s" % k, "tkind": k} for k in KINDS]
    out.append({"kind": "files", "name": "real-files"})
    return out


def run_logic(spec, tier, mg):
    import mygrad._io as mio

    res = common.new_result()
    engine = eng_mod.Engine()
    engine.reset_fn = lib.reset_state
    findings = []

    def body():
        store = _Store()
        saved_np = mio.np
        mio.np = _NpStub(store, saved_np)
        try:
            t = make_tensor(mg, spec["tkind"], lambda n, s: symarr(n, s))
            before = dict(data=[x.uid for x in terms_of(t.data)], grad=None if t.grad is None else [x.uid for x in terms_of(t.grad)],
                          creator=t.creator, ops=set(t._ops), constant=t.constant, data_id=id(t.data), grad_id=id(t._grad), base=t.base)
            f = io.BytesIO()
            mg.save(f, t)
            after = dict(data=[x.uid for x in terms_of(t.data)], grad=None if t.grad is None else [x.uid for x in terms_of(t.grad)],
                         creator=t.creator, ops=set(t._ops), constant=t.constant, data_id=id(t.data), grad_id=id(t._grad), base=t.base)
            loaded = mg.load(f)
            return t, before, after, loaded, store.calls
        finally:
            mio.np = saved_np

    for p in engine.explore(body, max_paths=10, max_seconds=60):
        res["paths"] += 1
        if p.exc is not None:
            findings.append("raised %s: %s" % (type(p.exc).__name__, p.exc))
            continue
        t, before, after, loaded, calls = p.out
        for k in before:
            if before[k] != after[k] if k not in ("creator", "base") else before[k] is not after[k]:
                findings.append("save() altered the tensor's %s" % k)
        if not isinstance(loaded, mg.Tensor):
            findings.append("load() returned %s" % type(loaded).__name__)
            continue
        if loaded.shape != t.shape:
            findings.append("loaded shape %s != %s" % (loaded.shape, t.shape))
            continue
        if [x.uid for x in terms_of(loaded.data)] != before["data"]:
            findings.append("loaded data differ")
        if (loaded.grad is None) != (before["grad"] is None):
            findings.append("gradient presence not preserved (original %s, loaded %s)" % ("set" if before["grad"] is not None else "None", "set" if loaded.grad is not None else "None"))
        elif loaded.grad is not None:
            if loaded.grad.shape != t.grad.shape:
                findings.append("loaded gradient shape %s != %s" % (loaded.grad.shape, t.grad.shape))
            else:
                prob = query.Problem([])
                r = prob.differ_any(list(zip(terms_of(loaded.grad), terms_of(t.grad))), 5000)
                res[r.verdict] += 1
                if r.verdict != "unsat":
                    findings.append("loaded gradient differs")
            if type(loaded.grad) is not np.ndarray:
                findings.append("loaded gradient is not an ndarray")
        if np.shares_memory(loaded.data, t.data):
            findings.append("loaded tensor shares memory with the original")
        if loaded.creator is not None:
            findings.append("loaded tensor is attached to a graph")
    if findings:
        rp = _replay(spec["tkind"])
        if rp:
            res["status"] = common.VIOLATION
            res["violations"].append({"signature": "io:%s:%s" % (spec["tkind"], findings[0][:40]), "replay": rp, "summary": "%s tensor: %s" % (spec["tkind"], "; ".join(findings[:3]))})
        else:
            res["status"] = common.INCONCLUSIVE
            res["notes"].append("did not reproduce with real files: %s" % findings[:2])
    res["sample"] = {"tensor_kind": spec["tkind"], "stub": "numpy.savez/load replaced by an in-memory store with the .npz contract"}
    return res


_REPLAY_BODY = '''
def check(mg, kind, dt, via, tmpdir):
    import io, os
    import numpy as np
    bad = []
    rng = np.random.RandomState(3)
    def mk(n, s):
        if dt == "bool": return np.asarray(rng.rand(*s) > 0.5)
        if dt.startswith("int"): return np.asarray(rng.rand(*s) * 10).astype(dt)
        return np.asarray(rng.rand(*s) + 0.5).astype(dt)
    try:
        t = make_tensor(mg, kind, mk)
    except Exception as e:
        return None
    d0 = t.data.copy(); g0 = None if t.grad is None else t.grad.copy(); c0, o0 = t.creator, set(t._ops)
    if via == "path":
        f = os.path.join(tmpdir, "t_%s_%s" % (kind, dt))
        mg.save(f, t); loaded = mg.load(f + ".npz")
    elif via == "path.npz":
        f = os.path.join(tmpdir, "u_%s_%s.npz" % (kind, dt))
        mg.save(f, t); loaded = mg.load(f)
    elif via == "bytesio-offset":
        # the archive does not start at offset 0 of the file object (the caller wrote a header first and positions the stream itself)
        f = io.BytesIO(); f.write(b"HEADER--12345"); pos = f.tell(); mg.save(f, t); f.seek(pos); loaded = mg.load(f)
    elif via == "open-file":
        fn = os.path.join(tmpdir, "w_%s_%s.bin" % (kind, dt))
        with open(fn, "wb") as f: mg.save(f, t)
        with open(fn, "rb") as f: loaded = mg.load(f)
    elif via == "bytesio/no_autodiff":
        # saved and loaded while graph tracking is suspended
        with mg.no_autodiff:
            f = io.BytesIO(); mg.save(f, t); f.seek(0); loaded = mg.load(f)
    else:
        f = io.BytesIO(); mg.save(f, t); f.seek(0); loaded = mg.load(f)
    if not np.array_equal(t.data, d0) or t.creator is not c0 or set(t._ops) != o0: bad.append("save altered the tensor")
    if (g0 is None) != (t.grad is None) or (g0 is not None and not np.array_equal(t.grad, g0)): bad.append("save altered the gradient")
    if loaded.shape != t.shape or loaded.dtype != t.dtype or not np.array_equal(loaded.data, t.data): bad.append("data/shape/dtype: %s %s vs %s %s" % (loaded.shape, loaded.dtype, t.shape, t.dtype))
    if (loaded.grad is None) != (t.grad is None): bad.append("gradient presence")
    elif t.grad is not None and (loaded.grad.shape != t.grad.shape or loaded.grad.dtype != t.grad.dtype or not np.array_equal(loaded.grad, t.grad)):
        bad.append("gradient value/shape/dtype: %s %s vs %s %s" % (loaded.grad.shape, loaded.grad.dtype, t.grad.shape, t.grad.dtype))
    return bad
'''


def _replay(kind):
    import inspect

    src = "import sys, tempfile\nimport numpy as np\nimport mygrad as mg\n" + inspect.getsource(make_tensor) + _REPLAY_BODY + '''
bad = []
with tempfile.TemporaryDirectory() as d:
    for dt in ("float64", "float32", "float16"):
        for via in ("path", "path.npz", "bytesio", "bytesio-offset", "open-file", "bytesio/no_autodiff"):
            try: b = check(mg, %r, dt, via, d)
            except Exception as e: b = ["raised %%s: %%s" %% (type(e).__name__, str(e)[:80])]
            if b: bad.append((dt, via, b))
print(bad)
print('REPRODUCED' if bad else 'NOT-REPRODUCED'); sys.exit(1 if bad else 0)
''' % (kind,)
    path = common.write_replay(PROP, gradcase._safe("io_" + kind), src)
    ok, out = common.run_replay(path)
    return path if ok else None


def run_files(spec, tier, mg):
    res = common.new_result()
    findings = []
    ns = {"make_tensor": make_tensor}
    exec(_REPLAY_BODY, ns)
    n = 0
    with tempfile.TemporaryDirectory() as d:
        for kind in KINDS:
            for dt in ("bool", "int8", "int64", "float16", "float32", "float64"):
                for via in ("path", "path.npz", "bytesio", "bytesio-offset", "open-file", "bytesio/no_autodiff"):
                    lib.reset_state()
                    try:
                        b = ns["check"](mg, kind, dt, via, d)
                    except Exception as e:
                        b = ["raised %s: %s" % (type(e).__name__, str(e)[:100])]
                    if b is None:
                        continue
                    n += 1
                    if b:
                        findings.append("%s/%s/%s: %s" % (kind, dt, via, "; ".join(b)))
    lib.reset_state()
    res["paths"] = n
    if findings:
        kind = findings[0].split("/")[0]
        rp = _replay(kind)
        res["status"] = common.VIOLATION if rp else common.INCONCLUSIVE
        if rp:
            res["violations"].append({"signature": "io-files:%s" % findings[0][:50], "replay": rp, "summary": "; ".join(findings[:3])})
        else:
            res["notes"].append("real-file findings (int/bool only?): %s" % findings[:3])
    res["sample"] = {"round_trips_through_real_files": n}
    return res


def run_case(spec, tier):
    mg = common._WORKER["mg"]
    if spec["kind"] == "logic":
        return run_logic(spec, tier, mg)
    return run_files(spec, tier, mg)


def main(argv=None):
    args = common.parse_args(argv)
    cs = cases(args.tier)
    if args.only:
        cs = [c for c in cs if args.only in c["name"]]
    describe = dict(
        level="other",
        rule="13 tensor kinds (plain, with gradient, view carrying a view-gradient, view of a base with gradient, constant, 0-d with/without "
             "gradient, empty with/without gradient, non-contiguous, attached to a graph, gradient nulled, gradient from a non-scalar seeded "
             "backward) in the symbolic logic lane; the same kinds x {bool,int8,int64,float16,float32,float64} x {path, path.npz, BytesIO} with real files",
        explanation="logic lane: the real save/load run on tensors with symbolic data while numpy.savez/load are a contract stub; loaded.data and "
                    "loaded.grad terms must equal the originals (term identity / z3), None preserved, and save must leave data, gradient, creator and "
                    "consumers untouched. Real-file lane: dtype/shape/value round trip on concrete arrays (no solver)",
        functions=["mygrad._io.save", "mygrad._io.load", "mygrad.tensor_base.Tensor.backward (re-seeding the gradient)"],
        bounds={"shapes": "<= (2,3)"},
        assumptions=["the .npz format itself (numpy/zipfile C and I/O code) is trusted: it is stubbed by its contract in the logic lane and executed in the file lane"],
        outside=["constant flag and graph are not part of the property"],
    )
    return common.main(PROP, "harness.C18", cs, args.tier, args.seed, describe, deadline_s=600)


if __name__ == "__main__":
    sys.exit(main())
