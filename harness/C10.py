"""C10 — constant semantics (DESIGN §3 C10).

Leaf flags are SYMBOLIC: leaves are instances of a harness-side Tensor subclass whose `constant` property returns
bool(self._constant) with `_constant` a SymBool; the untouched library forks wherever it reads a flag.
"""
import itertools
import sys

import numpy as np

from symnp import diff, engine as eng_mod, lib, query, terms as tm, vjp
from symnp.scalars import Sym, SymBool, symarr, terms_of

from . import common, gradcase

PROP = "C10"
M = np.array([True, False])

# body, {name: expected-constant as a function of the leaf flags (ca, cb, cc)}
PROGRAMS = {
    "arith": ("r = a * b + c", {"r": lambda ca, cb, cc: ca and cb and cc}),
    "exp": ("r = mg.exp(a) * b", {"r": lambda ca, cb, cc: ca and cb}),
    "view": ("v = a[:1]\nr = v * c + b.sum()", {"v": lambda ca, cb, cc: ca, "r": lambda ca, cb, cc: ca and cb and cc}),
    "setitem": ("w = a * b\nw[...] = c\nr = w * a", {"w": lambda ca, cb, cc: ca and cb, "r": lambda ca, cb, cc: ca and cb}),
    "force-true": ("m = mg.multiply(a, b, constant=True)\nr = m + c", {"m": lambda ca, cb, cc: True, "r": lambda ca, cb, cc: cc}),
    "force-false": ("m = mg.add(a, b, constant=False)\nr = m * c", {"m": lambda ca, cb, cc: False, "r": lambda ca, cb, cc: False}),
    "iadd": ("w = +a\nw += b\nr = w * c", {"w": lambda ca, cb, cc: ca, "r": lambda ca, cb, cc: ca and cc}),
    "matmul": ("r = mg.matmul(a, b) + c", {"r": lambda ca, cb, cc: ca and cb and cc}),
    "where": ("r = mg.where(M, a, b) * c", {"r": lambda ca, cb, cc: ca and cb and cc}),
    "reduce": ("r = mg.sum(a) * mg.mean(b) - c", {"r": lambda ca, cb, cc: ca and cb and cc}),
    "reshape": ("a2 = a.reshape(2, 1)\nr = (a2 * b).sum() + c", {"a2": lambda ca, cb, cc: ca, "r": lambda ca, cb, cc: ca and cb and cc}),
    "out": ("w = a * 1.0\nmg.multiply(b, c, out=w)\nr = w + a", {"w": lambda ca, cb, cc: ca, "r": lambda ca, cb, cc: ca}),
    "method-force": ("r = (a * b).sum(constant=True) + c", {"r": lambda ca, cb, cc: cc}),
    "concat": ("r = mg.concatenate([a, b]) * c", {"r": lambda ca, cb, cc: ca and cb and cc}),
    "einsum-force": ("r = mg.einsum('i,i->', a, b, constant=False) + c", {"r": lambda ca, cb, cc: False}),
    "view-of-const-then-op": ("v = a[::-1]\nw = v * b\nr = w + c", {"v": lambda ca, cb, cc: ca, "w": lambda ca, cb, cc: ca and cb,
                                                                      "r": lambda ca, cb, cc: ca and cb and cc}),
    "scalar-operands": ("r = a * 2.0 + np.array([1.0, 2.0]) + b", {"r": lambda ca, cb, cc: ca and cb}),
    "inplace-where": ("w = a * 1.0\nmg.add(b, c, out=w, where=M)\nr = w * w", {"w": lambda ca, cb, cc: ca, "r": lambda ca, cb, cc: ca}),
    # an explicit constant= on an in-place form: the target keeps its own flag
    "out-force-true": ("w = a * 1.0\nmg.multiply(b, c, out=w, constant=True)\nr = w + a", {"w": lambda ca, cb, cc: ca, "r": lambda ca, cb, cc: ca}),
    "out-force-false": ("w = a * 1.0\nmg.multiply(b, c, out=w, constant=False)\nr = w + a", {"w": lambda ca, cb, cc: ca, "r": lambda ca, cb, cc: ca}),
    "out-where-force-true": ("w = a * 1.0\nmg.add(b, c, out=w, where=M, constant=True)\nr = w * w", {"w": lambda ca, cb, cc: ca, "r": lambda ca, cb, cc: ca}),
    "out-where-force-false": ("w = a * 1.0\nmg.add(b, c, out=w, where=M, constant=False)\nr = w * w", {"w": lambda ca, cb, cc: ca, "r": lambda ca, cb, cc: ca}),
    # views whose flag is forced against that of their base
    "forced-const-view": ("v = mg.reshape(a, (2,), constant=True)\nr = a * b + c", {"v": lambda ca, cb, cc: True, "r": lambda ca, cb, cc: ca and cb and cc}),
    "forced-var-view": ("v = mg.reshape(a, (2,), constant=False)\nr = v * b + c", {"v": lambda ca, cb, cc: False, "r": lambda ca, cb, cc: False}),
    "forced-var-view-transpose": ("v = mg.transpose(a, constant=False)\nr = (v * v).sum() + b.sum() * c", {"v": lambda ca, cb, cc: False, "r": lambda ca, cb, cc: False}),
    "inplace-through-forced-var-view": ("v = mg.reshape(a, (2,), constant=False)\nv[...] = b\nr = v * c", {"v": lambda ca, cb, cc: False, "r": lambda ca, cb, cc: False}),
    "inplace-through-forced-const-view": ("v = mg.reshape(a, (2,), constant=True)\nv[...] = b\nr = b * c", {"v": lambda ca, cb, cc: True, "r": lambda ca, cb, cc: cb and cc}),
    "iop-through-forced-var-view": ("v = mg.transpose(a, constant=False)\nv[...] = b * b\nr = v * c", {"v": lambda ca, cb, cc: False, "r": lambda ca, cb, cc: False}),
    "clip-none-none-forced": ("m = mg.clip(a, None, None, constant=True)\nr = m * b + c", {"m": lambda ca, cb, cc: True, "r": lambda ca, cb, cc: cb and cc}),
    "clip-none-none": ("m = mg.clip(a, None, None)\nr = m * b + c", {"m": lambda ca, cb, cc: ca, "r": lambda ca, cb, cc: ca and cb and cc}),
}
# programs in which a leaf is written to through a view whose flag was forced: every leaf must end with the flag it started with
KEEP_LEAF_FLAGS = {"inplace-through-forced-var-view", "inplace-through-forced-const-view", "iop-through-forced-var-view"}
# non-constant intermediates through which r is computed: they must hold a gradient after r.backward()
ON_PATH = {"forced-var-view": ["v"], "forced-var-view-transpose": ["v"]}
# leaves whose gradient is blocked because the only path to r runs through a tensor that is constant (forced, or an
# in-place target that keeps its constant flag): constants transmit nothing
BLOCKED = {
    "clip-none-none-forced": lambda ca, cb, cc: {"a"},
    "force-true": lambda ca, cb, cc: {"a", "b"},
    "method-force": lambda ca, cb, cc: {"a", "b"},
    "iadd": lambda ca, cb, cc: {"b"} if ca else set(),
    "setitem": lambda ca, cb, cc: {"c"} if (ca and cb) else set(),
    "out": lambda ca, cb, cc: {"b", "c"} if ca else set(),
    "inplace-where": lambda ca, cb, cc: {"b", "c"} if ca else set(),
    "out-force-true": lambda ca, cb, cc: {"b", "c"} if ca else set(),
    "out-force-false": lambda ca, cb, cc: {"b", "c"} if ca else set(),
    "out-where-force-true": lambda ca, cb, cc: {"b", "c"} if ca else set(),
    "out-where-force-false": lambda ca, cb, cc: {"b", "c"} if ca else set(),
}
_SUB = {}


def flagged_class(mg):
    if "cls" not in _SUB:
        class FlagTensor(mg.Tensor):
            @property
            def constant(self):
                c = self.__dict__.get("_constant")
                return bool(c)

        _SUB["cls"] = FlagTensor
    return _SUB["cls"]


def cases(tier):
    out = [{"kind": "prog", "name": "prog/%s" % n, "prog": n} for n in PROGRAMS]
    out.append({"kind": "dtype", "name": "dtype-rules"})
    # flag inference over the whole operation registry: every C02 case body, leaves with symbolic constant flags / as bare arrays
    from . import C02

    from . import viewprog as vp

    # bodies with an in-place statement are excluded (the target keeps its own flag: programs above and C04)
    cs = [c for c in C02.cases(tier) if c.get("kind") != "crosshair" and "constant=" not in c["body"]
          and not any(vp.is_inplace(l) for l in c["body"].split("\n"))]
    for i in range(0, len(cs), 40):
        out.append({"kind": "sweep", "name": "sweep/%d" % i, "c02": cs[i:i + 40]})
    return out


def _sweep_kinds(k):
    """operand kinds for the bare-array passes: A = plain ndarray, K = constant tensor, V = non-constant tensor"""
    pats = {"A" * k, "K" * k}
    for i in range(k):
        pats.add("".join("A" if j == i else "K" for j in range(k)))
        pats.add("".join("K" if j == i else "A" for j in range(k)))
        pats.add("".join("V" if j == i else "A" for j in range(k)))
    return sorted(pats)


def run_sweep(spec, tier, mg):
    res = common.new_result()
    FT = flagged_class(mg)
    res["bodies"] = 0
    for cs in spec["c02"]:
        # bodies whose equality paths carry a claim in C02 (e.g. `x ** p` at p == 1, 2) are explored on those paths here too
        engine = eng_mod.Engine(skip_ties=not cs.get("smooth_at_ties"))
        engine.reset_fn = lib.reset_state
        env0 = gradcase.make_env(mg)
        findings = []
        names = [e[0] for e in cs.get("leaves", [])]

        def build(kinds, symbolic_flags):
            env = dict(env0)
            for name, shape in cs.get("carrs", []):
                env[name] = symarr(name, tuple(shape))
            if cs.get("setup"):
                exec(cs["setup"], env)
            T = {}
            for ent, kd in zip(cs.get("leaves", []), kinds):
                a = gradcase.mk_leaf(ent[0], ent[1], ent[2] if len(ent) > 2 else "C")
                if symbolic_flags:
                    t = FT(a)
                    t._constant = SymBool(tm.bvar("const_" + ent[0]))
                elif kd == "A":
                    t = np.array(a, dtype=object)
                else:
                    t = mg.Tensor(a, constant=(kd == "K"))
                T[ent[0]] = t
                env[ent[0]] = t
            if cs.get("assume"):
                e2 = dict(env)
                e2.update(gradcase._assume_helpers(engine))
                exec(cs["assume"], e2)
            return env, T

        def body():
            rows = []
            env, T = build("V" * len(names), True)
            exec(cs["body"], env)
            out = env["out"]
            flags = {n: bool(t._constant) for n, t in T.items()}
            oc = out.constant
            if not oc:
                out.backward()
            rows.append(("symbolic flags %s" % flags, oc, all(flags.values()), {n: (flags[n], T[n].grad is not None) for n in T}))
            for kinds in _sweep_kinds(len(names)):
                lib.reset_state()
                try:
                    env, T = build(kinds, False)
                    exec(cs["body"], env)
                    out = env["out"]
                    if not isinstance(out, mg.Tensor):
                        continue
                    oc = out.constant
                    if not oc:
                        out.backward()
                except Exception:  # this operand-kind assignment is not expressible for the body (e.g. a Tensor method on an array)
                    continue
                rows.append(("operands %s" % dict(zip(names, kinds)), oc, "V" not in kinds,
                             {n: (kinds[i] != "V", isinstance(T[n], mg.Tensor) and T[n].grad is not None) for i, n in enumerate(names)}))
            return rows

        try:
            for p in engine.explore(body, max_paths=16, max_seconds=20):
                res["paths"] += 1
                if p.exc is not None:
                    continue  # C02 reports library errors on these bodies; no flag fact on such a path
                for tag, oc, exp, per in p.out:
                    res["unsat"] += 1
                    if oc != exp:
                        findings.append("%s: out.constant is %s, expected %s" % (tag, oc, exp))
                    for n, (is_const, has_grad) in per.items():
                        if is_const and has_grad:
                            findings.append("%s: constant operand %s acquired a gradient" % (tag, n))
                        if oc and has_grad:
                            findings.append("%s: the result is constant but %s has a gradient" % (tag, n))
        except eng_mod.Budget:
            pass
        res["bodies"] += 1
        if findings:
            rp = _sweep_replay(cs)
            if rp:
                res["status"] = common.VIOLATION
                res["violations"].append({"signature": "const-sweep:%s" % cs["name"], "replay": rp,
                                          "summary": "`%s`: %s" % (cs["body"].replace("\n", "; "), "; ".join(sorted(set(findings))[:3]))})
            else:
                res["status"] = common.INCONCLUSIVE
                res["notes"].append("did not reproduce: %s :: %s" % (cs["name"], findings[:2]))
    res["sample"] = {"body": spec["c02"][0]["body"], "rule": "out.constant == (no operand is a non-constant tensor); constants never acquire .grad"}
    return res


def _sweep_replay(cs):
    src = '''import sys, itertools
import numpy as np
import mygrad as mg
import mygrad.nnet as nnet
from mygrad.nnet.activations import *
from mygrad.nnet.layers import *
from mygrad.nnet.losses import *
CS = %r
rng = np.random.RandomState(5)
names = [e[0] for e in CS.get("leaves", [])]
bad = []
for kinds, special in itertools.product(itertools.product("AKV", repeat=len(names)), (None, 1.0, 2.0, 0.0)):
    # (0-d operands also take the values at which libraries like to short-cut: 1, 2, 0)
    env = dict(globals())
    for name, shape in CS.get("carrs", []): env[name] = np.asarray(rng.rand(*shape) * 0.5 + 0.25)
    if CS.get("setup"): exec(CS["setup"], env)
    T = {}
    for ent, kd in zip(CS["leaves"], kinds):
        a = np.asarray(rng.rand(*ent[1]) * 0.5 + 0.25)
        if special is not None and len(ent[1]) == 0: a = np.asarray(special)
        if len(ent) > 2 and ent[2] == "F" and len(ent[1]) >= 2: a = np.asfortranarray(a)
        T[ent[0]] = a if kd == "A" else mg.Tensor(a, constant=(kd == "K"))
        env[ent[0]] = T[ent[0]]
    try:
        exec(CS["body"], env); out = env["out"]
        if not isinstance(out, mg.Tensor): continue
        if not out.constant: out.backward()
    except Exception:
        continue
    if out.constant != ("V" not in kinds): bad.append((kinds, "out.constant", out.constant))
    for n, kd in zip(names, kinds):
        if kd == "K" and T[n].grad is not None: bad.append((kinds, n, "constant operand has grad"))
print(bad[:6])
print('REPRODUCED' if bad else 'NOT-REPRODUCED'); sys.exit(1 if bad else 0)
''' % ({k: v for k, v in cs.items() if k in ("name", "body", "leaves", "carrs", "setup")},)
    path = common.write_replay(PROP, gradcase._safe("sweep_" + cs["name"]), src)
    ok, out = common.run_replay(path)
    return path if ok else None



def run_prog(spec, tier, mg):
    res = common.new_result()
    body_src, expected = PROGRAMS[spec["prog"]]
    engine = eng_mod.Engine(skip_ties=True)
    engine.reset_fn = lib.reset_state
    FT = flagged_class(mg)
    findings = []

    def body():
        A = {"a": symarr("a", (2,)), "b": symarr("b", (2,)), "c": symarr("c", ())}
        T = {}
        flags = {}
        for n, arr in A.items():
            t = FT(arr)
            t._constant = SymBool(tm.bvar("const_" + n))
            T[n] = t
        env = {"mg": mg, "np": np, "M": M}
        env.update(T)
        pre_flags = {n: bool(t._constant) for n, t in T.items()} if spec["prog"] in KEEP_LEAF_FLAGS else None
        exec(body_src, env)
        r = env["r"]
        # read the flags (forks if the library has not yet decided them)
        for n, t in T.items():
            flags[n] = bool(t._constant)
        if pre_flags is not None:
            changed = [n for n in T if bool(T[n].constant) != pre_flags[n]]
            flags = pre_flags
            env["__changed__"] = changed
        named = {n: env[n].constant for n in expected}
        rt = terms_of(r.data)
        r.backward()
        grads = {n: t.grad for n, t in T.items()}
        inter_grads = {n: env[n].grad for n in expected if n != "r"}
        copy_grads = {n: t.copy(constant=True).grad is not None for n, t in T.items() if t.grad is not None}
        # twin: every constant tensor replaced by a plain ndarray
        twin = None
        try:
            lib.reset_state()
            T2 = {n: (np.array(A[n], dtype=object) if flags[n] else mg.Tensor(A[n])) for n in A}
            env2 = {"mg": mg, "np": np, "M": M}
            env2.update(T2)
            exec(body_src, env2)
            r2 = env2["r"]
            if isinstance(r2, mg.Tensor):
                r2.backward()
            twin = {n: (t.grad if isinstance(t, mg.Tensor) else None) for n, t in T2.items()}
            twin["__r__"] = terms_of(r2.data if isinstance(r2, mg.Tensor) else r2)
        except Exception as e:  # the twin is not expressible with bare arrays for this flag assignment
            twin = ("n/a", "%s: %s" % (type(e).__name__, e))
        if env.get("__changed__"):
            copy_grads["__flag_changed__:" + ",".join(env["__changed__"])] = True
        return A, flags, named, rt, grads, inter_grads, twin, copy_grads

    for p in engine.explore(body, max_paths=64, max_seconds=120):
        res["paths"] += 1
        if p.exc is not None:
            res["status"] = common.INCONCLUSIVE
            res["notes"].append("%s: %s" % (type(p.exc).__name__, str(p.exc)[:300]))
            continue
        A, flags, named, rt, grads, inter_grads, twin, copy_grads = p.out
        ca, cb, cc = flags["a"], flags["b"], flags["c"]
        tag = "flags a=%s b=%s c=%s" % (ca, cb, cc)
        for n, f in expected.items():
            if named[n] != bool(f(ca, cb, cc)):
                findings.append("%s: %s.constant is %s, expected %s" % (tag, n, named[n], bool(f(ca, cb, cc))))
        for n in A:
            if flags[n] and grads[n] is not None:
                findings.append("%s: constant leaf %s acquired a gradient" % (tag, n))
        for n, g in inter_grads.items():
            if named[n] and g is not None:
                findings.append("%s: constant tensor %s acquired a gradient" % (tag, n))
        for n in ON_PATH.get(spec["prog"], []):
            if not named[n] and inter_grads.get(n) is None:
                findings.append("%s: non-constant tensor %s lies on the path to r but has no gradient" % (tag, n))
        for n, cg in copy_grads.items():
            if n.startswith("__flag_changed__:"):
                findings.append("%s: the constant flag of leaf %s changed during the program" % (tag, n.split(":", 1)[1]))
            elif cg:
                findings.append("%s: %s.copy(constant=True) carries a gradient" % (tag, n))
        # reference derivative treating constants as constants
        L = diff.weighted_sum(rt, [tm.const(1)] * len(rt))
        blocked = BLOCKED.get(spec["prog"], lambda *a: set())(ca, cb, cc)
        for n in blocked:
            if grads[n] is not None:
                findings.append("%s: %s has a gradient although its only path to r runs through a constant tensor" % (tag, n))
        mutated = {"a"} if spec["prog"] in KEEP_LEAF_FLAGS else set()  # the leaf written to through the view: its .grad refers to its new value (C05)
        leaves = [(n, A[n], grads[n]) for n in A if not flags[n] and n not in blocked and n not in mutated]
        r_const = bool(expected["r"](ca, cb, cc))
        if leaves and not r_const:
            rr = vjp.check_grads(p, L, leaves, timeout_ms=10000)
            res["unsat"] += rr["unsat"]
            res["sat"] += rr["sat"]
            res["unknown"] += rr["unknown"]
            if rr["cex"] is not None:
                findings.append("%s: gradient of %s differs from the derivative with constants held fixed" % (tag, rr["cex"]["leaf"]))
            if rr["unknown"]:
                res["status"] = common.INCONCLUSIVE
        elif r_const:
            for n in A:
                if grads[n] is not None and n not in mutated:
                    findings.append("%s: result is constant but %s has a gradient" % (tag, n))
        if isinstance(twin, dict) and spec["prog"] not in KEEP_LEAF_FLAGS:  # (a bare array is not written through by a tracked in-place update)
            prob = query.Problem(list(p.pc) + list(p.dom))
            pairs = list(zip(rt, twin["__r__"])) if len(rt) == len(twin["__r__"]) else None
            if pairs is None:
                findings.append("%s: result shape differs from the run with bare arrays" % tag)
            else:
                for n in A:
                    if flags[n]:
                        continue
                    g1, g2 = grads[n], twin[n]
                    if (g1 is None) != (g2 is None):
                        if not r_const:
                            findings.append("%s: %s.grad presence differs from the run in which constants are bare arrays" % (tag, n))
                        continue
                    if g1 is not None:
                        pairs += list(zip(terms_of(g1), terms_of(g2)))
                r = prob.differ_any(pairs, 10000)
                res[r.verdict] += 1
                if r.verdict == "sat":
                    findings.append("%s: values/gradients differ from the run in which constants are bare arrays" % tag)
                elif r.verdict == "unknown":
                    res["status"] = common.INCONCLUSIVE
        else:
            res["twin_not_expressible"] = res.get("twin_not_expressible", 0) + 1
    copy_findings = [f for f in findings if "copy(constant=True) carries a gradient" in f]
    findings = [f for f in findings if f not in copy_findings]
    dropped = [f for f in findings if spec["prog"] in KEEP_LEAF_FLAGS and "flags a=True b=False" in f and "gradient of b differs" in f]
    findings = [f for f in findings if f not in dropped]
    if dropped:
        sig = "inplace-through-var-view-of-const-base:written-value-gradient-dropped"
        known = common.match_known(common.load_known(PROP), sig)
        rp = _replay(spec, body_src)
        if rp:
            if known is None:
                res["status"] = common.VIOLATION
            res["violations"].append({"signature": sig, "replay": rp, "summary": "program `%s`: %s" % (body_src.replace("\n", "; "), dropped[0])})
        else:
            res["status"] = common.INCONCLUSIVE
            res["notes"].append("did not reproduce: %s" % dropped[:1])
    if copy_findings:
        sig = "copy-constant-true-carries-grad"
        known = common.match_known(common.load_known(PROP), sig)
        src = ("import sys\nimport numpy as np\nimport mygrad as mg\nx = mg.Tensor([1.0, 2.0])\n(x * 3.0).sum().backward()\nc = x.copy(constant=True)\n"
               "print(c.constant, c.grad)\nbad = c.constant and c.grad is not None\nprint('REPRODUCED' if bad else 'NOT-REPRODUCED'); sys.exit(1 if bad else 0)\n")
        path = common.write_replay(PROP, gradcase._safe("copy_constant_true_" + spec["prog"]), src)
        ok, out = common.run_replay(path, count=known is None)
        if ok:
            if known is None:
                res["status"] = common.VIOLATION
            res["violations"].append({"signature": sig, "replay": path, "summary": "program `%s`: %s" % (body_src.replace("\n", "; "), copy_findings[0])})
        else:
            res["status"] = common.INCONCLUSIVE
            res["notes"].append("did not reproduce: %s" % copy_findings[:1])
    if findings:
        rp = _replay(spec, body_src)
        if rp:
            res["status"] = common.VIOLATION
            res["violations"].append({"signature": "const:%s" % findings[0].split(": ", 1)[-1][:50], "replay": rp,
                                      "summary": "program `%s`: %s" % (body_src.replace("\n", "; "), "; ".join(findings[:3]))})
        else:
            res["status"] = common.INCONCLUSIVE
            res["notes"].append("did not reproduce: %s" % findings[:2])
    res["sample"] = {"program": body_src, "flags": "symbolic (a, b, c): every assignment the library distinguishes is a path"}
    return res


def _replay(spec, body_src):
    exp_src = {
        "arith": "{'r': ca and cb and cc}", "exp": "{'r': ca and cb}", "view": "{'v': ca, 'r': ca and cb and cc}",
        "setitem": "{'w': ca and cb, 'r': ca and cb}", "force-true": "{'m': True, 'r': cc}", "force-false": "{'m': False, 'r': False}",
        "iadd": "{'w': ca, 'r': ca and cc}", "matmul": "{'r': ca and cb and cc}", "where": "{'r': ca and cb and cc}",
        "reduce": "{'r': ca and cb and cc}", "reshape": "{'a2': ca, 'r': ca and cb and cc}", "out": "{'w': ca, 'r': ca}",
        "method-force": "{'r': cc}", "concat": "{'r': ca and cb and cc}", "einsum-force": "{'r': False}",
        "view-of-const-then-op": "{'v': ca, 'w': ca and cb, 'r': ca and cb and cc}", "scalar-operands": "{'r': ca and cb}",
        "inplace-where": "{'w': ca, 'r': ca}",
        "out-force-true": "{'w': ca, 'r': ca}", "out-force-false": "{'w': ca, 'r': ca}", "out-where-force-true": "{'w': ca, 'r': ca}",
        "out-where-force-false": "{'w': ca, 'r': ca}",
        "forced-const-view": "{'v': True, 'r': ca and cb and cc}", "forced-var-view": "{'v': False, 'r': False}",
        "forced-var-view-transpose": "{'v': False, 'r': False}", "clip-none-none-forced": "{'m': True, 'r': cb and cc}",
        "clip-none-none": "{'m': ca, 'r': ca and cb and cc}",
        "inplace-through-forced-var-view": "{'v': False, 'r': False}", "inplace-through-forced-const-view": "{'v': True, 'r': cb and cc}",
        "iop-through-forced-var-view": "{'v': False, 'r': False}",
    }[spec["prog"]]
    src = '''import sys, itertools
import numpy as np
import mygrad as mg
BODY = %r
KEEP = %r
ON_PATH = %r
M = np.array([True, False])
A = {"a": np.array([1.5, -0.5]), "b": np.array([0.75, 2.0]), "c": np.array(1.25)}
bad = []
for ca, cb, cc in itertools.product([False, True], repeat=3):
    fl = {"a": ca, "b": cb, "c": cc}
    T = {n: mg.Tensor(A[n], constant=fl[n]) for n in A}
    env = {"mg": mg, "np": np, "M": M}; env.update(T)
    try:
        exec(BODY, env); r = env["r"]
        exp = %s
        for n, e in exp.items():
            if env[n].constant != bool(e): bad.append((fl, n, "constant", env[n].constant))
        r.backward()
        if KEEP and fl["a"] and not fl["b"] and not env["v"].constant and T["b"].grad is None: bad.append((fl, "b", "the value written through the non-constant view received no gradient"))
        for n in A:
            if T[n].constant != fl[n]: bad.append((fl, n, "leaf flag changed"))
            if fl[n] and T[n].grad is not None: bad.append((fl, n, "constant leaf has grad"))
        for n in exp:
            if n != "r" and env[n].constant and env[n].grad is not None: bad.append((fl, n, "constant tensor has grad"))
            if n in ON_PATH and not env[n].constant and env[n].grad is None: bad.append((fl, n, "non-constant tensor on the path has no grad"))
        T2 = {n: (A[n].copy() if fl[n] else mg.Tensor(A[n])) for n in A}
        env2 = {"mg": mg, "np": np, "M": M}; env2.update(T2)
        try:
            exec(BODY, env2); r2 = env2["r"]
            if isinstance(r2, mg.Tensor): r2.backward()
            if not np.allclose(r.data, r2.data if isinstance(r2, mg.Tensor) else r2): bad.append((fl, "values differ from bare-array run"))
            for n in A:
                if not fl[n] and not exp["r"]:
                    g1, g2 = T[n].grad, T2[n].grad
                    if (g1 is None) != (g2 is None) or (g1 is not None and not np.allclose(g1, g2)): bad.append((fl, n, "grad differs from bare-array run"))
        except Exception as e:
            pass
    except Exception as e:
        bad.append((fl, "raised", type(e).__name__, str(e)[:200]))
print(bad)
print('REPRODUCED' if bad else 'NOT-REPRODUCED'); sys.exit(1 if bad else 0)
''' % (body_src, spec["prog"] in KEEP_LEAF_FLAGS, ON_PATH.get(spec["prog"], []), exp_src)
    path = common.write_replay(PROP, gradcase._safe(spec["name"]), src)
    ok, out = common.run_replay(path)
    return path if ok else None


def run_dtype_rules(spec, tier, mg):
    """integer/boolean tensors are always constant, constant=False raises, float default is non-constant; in-place target keeps its flag"""
    res = common.new_result()
    findings = []
    n = 0
    for dt in ("bool", "int8", "int32", "int64", "uint8"):
        for maker in ("Tensor", "tensor", "astensor", "op"):
            n += 1
            a = np.ones((2,), dtype=dt)
            try:
                if maker == "Tensor":
                    t = mg.Tensor(a)
                elif maker == "tensor":
                    t = mg.tensor(a)
                elif maker == "astensor":
                    t = mg.astensor(a)
                else:
                    t = mg.tensor(a) + mg.tensor(a)
                if t.constant is not True:
                    findings.append("%s tensor from %s is not constant" % (dt, maker))
            except Exception as e:
                findings.append("%s via %s raised %s" % (dt, maker, type(e).__name__))
            for f in (lambda: mg.Tensor(a, constant=False), lambda: mg.tensor(a, constant=False), lambda: mg.add(mg.tensor(a), 1, constant=False),
                      lambda: mg.tensor(a).astype(dt, constant=False)):
                n += 1
                try:
                    f()
                    findings.append("%s tensor accepted constant=False" % dt)
                except (ValueError, TypeError):
                    pass
    for dt in ("float16", "float32", "float64"):
        a = np.ones((2,), dtype=dt)
        n += 1
        if mg.Tensor(a).constant is not False or mg.tensor(a).constant is not False or (mg.tensor(a) * 2).constant is not False:
            findings.append("%s tensor does not default to non-constant" % dt)
        if mg.Tensor(a, constant=True).constant is not True or (mg.tensor(a, constant=True) * 2).constant is not True:
            findings.append("%s constant=True not honoured" % dt)
        # mixing: int tensor with float non-constant tensor
        r = mg.tensor(a) * mg.tensor(np.ones(2, dtype="int64"))
        if r.constant is not False:
            findings.append("float*int result should be non-constant")
        r.backward()
    # in-place target keeps its own flag
    for tflag in (True, False):
        for vflag in (True, False):
            n += 1
            t = mg.tensor([1.0, 2.0], constant=tflag)
            v = mg.tensor([3.0, 4.0], constant=vflag)
            t[...] = v
            if t.constant is not tflag:
                findings.append("in-place target flag %s became %s after assigning a tensor with constant=%s" % (tflag, t.constant, vflag))
            t2 = mg.tensor([1.0, 2.0], constant=tflag)
            t2 *= v
            if t2.constant is not tflag:
                findings.append("augmented assignment changed the target's flag")
            t3 = mg.tensor([1.0, 2.0], constant=tflag)
            mg.add(v, 1.0, out=t3)
            if t3.constant is not tflag:
                findings.append("out= changed the target's flag")
    for bad in (1, "yes", np.True_ if False else 0):
        n += 1
        try:
            mg.Tensor([1.0], constant=bad)
            findings.append("non-bool constant=%r accepted" % (bad,))
        except TypeError:
            pass
    lib.reset_state()
    res["paths"] = n
    if findings:
        res["status"] = common.VIOLATION
        res["violations"].append({"signature": "dtype-rule:%s" % findings[0][:40], "replay": None, "summary": "; ".join(findings[:4])})
    res["sample"] = {"dtype_rule_checks": n}
    return res


def run_case(spec, tier):
    mg = common._WORKER["mg"]
    if spec["kind"] == "prog":
        return run_prog(spec, tier, mg)
    if spec["kind"] == "sweep":
        return run_sweep(spec, tier, mg)
    return run_dtype_rules(spec, tier, mg)


def main(argv=None):
    args = common.parse_args(argv)
    cs = cases(args.tier)
    if args.only:
        cs = [c for c in cs if args.only in c["name"]]

    def extra(results):
        return {"flag_assignments_without_bare_array_twin": sum(r.get("twin_not_expressible", 0) for r in results if r)}

    describe = dict(
        level="other",
        rule="operation sweep: every C02 case body without an in-place statement, leaves with symbolic flags and as bare arrays / constant tensors / one "
             "non-constant tensor (rule: result constant iff no operand is a non-constant tensor; constants never acquire .grad); 23 programs over three leaves with SYMBOLIC constant flags (views, set-item, augmented assignment, out=/where=, reductions, matmul, "
             "einsum, where, concatenate, constant=True/False overrides on functions and methods); every flag assignment the library "
             "distinguishes is a path; plus concrete dtype rules (int/bool always constant, constant=False raises, float default)",
        explanation="the library forks wherever it reads a flag (Tensor._op inference, Operation.backward skip, Tensor.backward early exit, copy "
                    "inside _in_place_op); per path: result and intermediate flags equal the documented rule, constants have grad None, and z3 "
                    "decides that the gradients of the others equal (i) the reference derivative with constants held fixed and (ii) the "
                    "gradients of the same program with every constant tensor replaced by a bare ndarray",
        functions=["mygrad.tensor_base.Tensor.__init__ (dtype gate)", "Tensor._op (constant inference)", "Tensor.backward", "Tensor._in_place_op",
                   "mygrad.operation_base.Operation.backward (constant skip)"],
        bounds={"leaves": 3, "programs": len(PROGRAMS)},
        assumptions=["flags are symbolic only on leaves (harness subclass of Tensor with a forking `constant` property)"],
        outside=["programs outside the list"],
    )
    from symnp import selftest

    return common.main(PROP, "harness.C10", cs, args.tier, args.seed, describe, preflight=selftest.run, extra_evidence=extra, deadline_s=900)


if __name__ == "__main__":
    sys.exit(main())
