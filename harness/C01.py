"""C01 — backward() is the exact total derivative of the recorded computation (DESIGN §3 C01).

(a) topology: every DAG over k leaves with n internal binary +/· nodes (one node optionally 3-ary sequence op),
    constant-flag patterns, operand-swapped and statement-reordered variants; leaf AND intermediate gradients
    against the reference differentiator (cut variables for intermediates); independence ⇒ grad is None.
(b) op-rich straight-line programs (source text) over a fixed alphabet, all well-typed programs of depth <= d.
"""
import itertools
import sys
import time

import numpy as np

from symnp import diff, engine as eng_mod, lib, terms as tm, vjp
from symnp.scalars import Sym, symarr, terms_of

from . import common, gradcase

PROP = "C01"
LEAF_SHAPES = [(2,), (), (1,), (2, 1)]


# ------------------------------------------------------------------ (a) DAG enumeration
def dags(k, n):
    """all sequences of n internal nodes; node i = (op, a, b) with a <= b < k+i"""
    def rec(i):
        if i == n:
            yield ()
            return
        m = k + i
        for op in ("add", "mul"):
            for a in range(m):
                for b in range(a, m):
                    for rest in rec(i + 1):
                        yield ((op, a, b),) + rest
    return rec(0)


def dag_cases(tier):
    cfgs = [(2, 1), (2, 2), (2, 3), (3, 1), (3, 2), (3, 3)]
    if tier == "thorough":
        cfgs += [(2, 4), (3, 4)]
    out = []
    for k, n in cfgs:
        batch = []
        size = 60 if n <= 3 else 400
        for d, dag in enumerate(dags(k, n)):
            if (k, n) == (3, 4) and d % 16 != 3:
                continue  # stated bound: every 16th DAG of the 302 400 with k=3, n=4
            batch.append((d, dag))
            if len(batch) == size:
                out.append({"kind": "dag", "name": "dag/k%d/n%d/%d" % (k, n, d), "k": k, "n": n, "dags": batch})
                batch = []
        if batch:
            out.append({"kind": "dag", "name": "dag/k%d/n%d/last" % (k, n), "k": k, "n": n, "dags": batch})
    return out


def _eval_np(dag, vals, cut=None):
    """twin evaluation on plain object arrays (NumPy does the broadcasting); cut=(index, array)"""
    vals = list(vals)
    k = len(vals)
    for i, node in enumerate(dag):
        if cut is not None and cut[0] == k + i:
            vals.append(cut[1])
            continue
        if node[0] == "add":
            vals.append(vals[node[1]] + vals[node[2]])
        elif node[0] == "mul":
            vals.append(vals[node[1]] * vals[node[2]])
        elif node[0] == "addseq":
            vals.append(vals[node[1]] + vals[node[2]] + vals[node[3]])
        elif node[0] == "mulseq":
            vals.append(vals[node[1]] * vals[node[2]] * vals[node[3]])
    return vals


def _depends(dag, k):
    """set of value indices the last node depends on"""
    last = k + len(dag) - 1
    dep = {last}
    for i in range(len(dag) - 1, -1, -1):
        if k + i in dep:
            dep.update(dag[i][1:])
    return dep


def _source(dag, k, consts, swap=False, order=None):
    names = "abcdefgh"
    lines = []
    idxs = list(range(len(dag))) if order is None else order
    for i in idxs:
        node = dag[i]
        ops = [("%s" % names[j] if j < k else "t%d" % (j - k)) for j in node[1:]]
        if swap:
            ops = ops[::-1]
        if node[0] in ("add", "mul"):
            lines.append("t%d = %s %s %s" % (i, ops[0], "+" if node[0] == "add" else "*", ops[1]))
        else:
            lines.append("t%d = mg.%s(%s)" % (i, "add_sequence" if node[0] == "addseq" else "multiply_sequence", ", ".join(ops)))
    return lines


def _second_topo_order(dag, k):
    """a different valid statement order if one exists: delay each node as late as possible"""
    n = len(dag)
    placed = []
    remaining = list(range(n))
    # greedy: repeatedly take the highest-index node whose operands are available
    avail = set(range(k))
    while remaining:
        for i in sorted(remaining, reverse=True):
            if all(j in avail for j in dag[i][1:]):
                placed.append(i)
                avail.add(k + i)
                remaining.remove(i)
                break
        else:
            return None
    return placed if placed != list(range(n)) else None


def run_dag_case(spec, tier, mg):
    res = common.new_result()
    k, n = spec["k"], spec["n"]
    engine = eng_mod.Engine()
    engine.reset_fn = lib.reset_state
    shapes = LEAF_SHAPES[:k]
    thorough = tier == "thorough"
    first_sample = None
    for d, dag in spec["dags"]:
        dag = [tuple(x) for x in dag]
        variants = []
        # constant-flag patterns
        pats = list(itertools.product([False, True], repeat=k))
        if not thorough:
            pats = [pats[0], pats[d % len(pats)]] if d % len(pats) else [pats[0]]
        # one 3-ary node per DAG (selector derived from the DAG index)
        node3 = d % n
        third = d % (k + node3)
        dag3 = list(dag)
        # multiply_sequence only on a node whose operands are leaves (its backward tests `out == 0`, and
        # deciding that for products of high-degree intermediates exceeds the feasibility budget)
        seq = "mulseq" if (dag[node3][0] == "mul" and all(j < k for j in dag[node3][1:] + (third,))) else "addseq"
        dag3[node3] = (seq,) + dag[node3][1:] + (third,)
        for pat in pats:
            variants.append((dag, pat, False, None))
        variants.append((dag3, pats[0], False, None))
        variants.append((dag, pats[0], True, None))
        o2 = _second_topo_order(dag, k)
        if o2 is not None:
            variants.append((dag, pats[0], False, o2))
        for vdag, pat, swap, order in variants:
            r = _run_one_dag(engine, mg, vdag, k, shapes, pat, swap, order, res, spec, d)
            if first_sample is None and r is not None:
                first_sample = r
    if first_sample:
        res["sample"] = first_sample
    return res


def _run_one_dag(engine, mg, dag, k, shapes, pat, swap, order, res, spec, d):
    names = "abcdefgh"
    lines = _source(dag, k, pat, swap, order)
    src = "\n".join(lines)
    n = len(dag)

    def body():
        arrs = [symarr(names[i], shapes[i]) for i in range(k)]
        env = {"mg": mg, "np": np}
        tens = []
        for i in range(k):
            t = mg.Tensor(arrs[i], constant=bool(pat[i]))
            tens.append(t)
            env[names[i]] = t
        exec(src, env)
        inter = [env["t%d" % i] for i in range(n)]
        L = inter[-1]
        out_terms = terms_of(L.data)
        inter_vals = [np.array(t.data, dtype=object, copy=True) for t in inter]
        inter_const = [t.constant for t in inter]
        L.backward()
        grads = [t.grad for t in tens] + [t.grad for t in inter]
        data_after = [t.data for t in tens]
        return arrs, tens, inter, grads, out_terms, inter_vals, inter_const

    # +,* programs have one smooth forward expression; forks can only come from backward-side special
    # cases (MultiplySequence tests `out == 0`).  Every path, tie paths included, is therefore checked
    # against the derivative of the same polynomial.
    sample = None
    luid = None
    try:
        for p in engine.explore(body, max_paths=200, max_seconds=60):
            res["paths"] += 1
            if p.exc is None:
                u = tuple(t.uid for t in p.out[4])
                if luid is None:
                    luid = u
                elif luid != u:
                    res["status"] = common.INCONCLUSIVE
                    res["notes"].append("forward term differs between paths of a +,* program: %s" % src)
                    return None
            r = _check_dag_path(p, dag, k, n, shapes, pat, src, res, spec, d)
            sample = sample or r
            p.out = None
    except eng_mod.Budget as e:
        res["status"] = common.INCONCLUSIVE
        res["notes"].append("DAG program %s: %s" % (src, e))
        return None
    return sample


def _check_dag_path(p, dag, k, n, shapes, pat, src, res, spec, d):
    names = "abcdefgh"
    if p.exc is not None:
        _violation(res, spec, d, src, pat, "backward/forward raised %s: %s" % (type(p.exc).__name__, p.exc), k, shapes)
        return None
    arrs, tens, inter, grads, out_terms, inter_vals, inter_const = p.out
    Lterm = diff.weighted_sum(out_terms, [tm.const(1)] * len(out_terms))
    dep = _depends(dag, k)
    # twin value check (forward recorded == NumPy twin): cheap sanity of the term itself
    twin = _eval_np(dag, arrs)
    # which values are constant (all operands constant)
    const = list(pat)
    for i, node in enumerate(dag):
        const.append(all(const[j] for j in node[1:]))
    upstream_nonconst = [j for j in range(k + n) if j in dep and not const[j]]
    allconst_L = const[k + n - 1]
    # ---- structural assertions
    for j in range(k + n):
        g = grads[j]
        if allconst_L:
            expect_none = True
        else:
            expect_none = (j not in dep) or const[j]
        if expect_none and g is not None:
            _violation(res, spec, d, src, pat, "value #%d (constant or independent of L) has a gradient" % j, k, shapes)
            return None
        if not expect_none and g is None:
            _violation(res, spec, d, src, pat, "value #%d (upstream, non-constant) has no gradient" % j, k, shapes)
            return None
    if allconst_L:
        return None
    # ---- leaves
    leaves = [(names[i], arrs[i], grads[i]) for i in range(k) if i in dep and not const[i]]
    r = vjp.check_grads(p, Lterm, leaves, timeout_ms=8000)
    _account(res, r, spec, d, src, pat, k, shapes, p, arrs, Lterm, grads)
    # ---- intermediates through cut variables
    for i in range(n - 1):
        j = k + i
        if j not in dep or const[j]:
            continue
        cut = symarr("cut%d" % i, inter_vals[i].shape)
        vals = _eval_np(dag, arrs, cut=(j, cut))
        Lc = vals[-1]
        Lc_terms = terms_of(np.asarray(Lc, dtype=object))
        Lcut = diff.weighted_sum(Lc_terms, [tm.const(1)] * len(Lc_terms))
        subst = {}
        for cv, val in zip(cut.reshape(-1) if cut.ndim else [cut[()]], inter_vals[i].reshape(-1) if inter_vals[i].ndim else [inter_vals[i][()]]):
            subst[cv.t.uid] = Sym.lift(val)
        r = vjp.check_grads(p, Lcut, [("t%d" % i, cut, grads[j])], timeout_ms=8000, subst=subst)
        _account(res, r, spec, d, src, pat, k, shapes, p, arrs, Lterm, grads, inter=i)
    return {"program": src, "constant_leaves": list(pat), "leaf_shapes": [list(s) for s in shapes], "L": "t%d" % (n - 1)}


def _account(res, r, spec, d, src, pat, k, shapes, p, arrs, Lterm, grads, inter=None):
    res["unsat"] += r["unsat"]
    res["sat"] += r["sat"]
    res["unknown"] += r["unknown"]
    if r["unknown"]:
        res["status"] = common.INCONCLUSIVE
        res["notes"].append("unknown on %s" % src)
    if r["cex"] is not None:
        cex = r["cex"]
        names = "abcdefgh"
        gspec = {"name": "%s#%d%s" % (spec["name"], d, "" if inter is None else "/t%d" % inter),
                 "leaves": [[names[i], list(shapes[i])] for i in range(k)],
                 "body": "\n".join("%s = mg.Tensor(%s.data, constant=%r)" % (names[i], names[i], bool(pat[i])) for i in range(k))
                         + "\n" + src + "\nout = t%d" % (src.count("\n")), "seed": "none"}
        # the body's last statement index: statements are t0..t{n-1} but possibly reordered
        gspec["body"] = gspec["body"].rsplit("\nout = ", 1)[0] + "\nout = t%d" % (len(src.splitlines()) - 1)
        gradcase._handle_cex(res, gspec, PROP, cex, p, {names[i]: arrs[i] for i in range(k)}, Lterm, None)


def _violation(res, spec, d, src, pat, msg, k, shapes):
    """structural finding: re-check literally on the unpatched library with floats"""
    names = "abcdefgh"
    s = "import sys\nimport numpy as np\nimport mygrad as mg\n"
    for i in range(k):
        s += "%s = mg.Tensor(np.arange(1, %d, dtype=float).reshape(%r) + %d.5, constant=%r)\n" % (
            names[i], int(np.prod(shapes[i])) + 1, tuple(shapes[i]), i, bool(pat[i]))
    s += "try:\n"
    for ln in src.splitlines():
        s += "    " + ln + "\n"
    n = len(src.splitlines())
    s += "    t%d.backward()\nexcept Exception as e:\n    print('REPRODUCED: raised', type(e).__name__, e); sys.exit(1)\n" % (n - 1)
    s += "vals = [%s]\n" % ", ".join([names[i] for i in range(k)] + ["t%d" % i for i in range(n)])
    s += "print([None if v.grad is None else v.grad.tolist() for v in vals])\n"
    s += "# finding: %s\n" % msg
    if "has a gradient" in msg or "has no gradient" in msg:
        j = int(msg.split("#")[1].split()[0])
        want_none = "has a gradient" in msg
        s += "bad = (vals[%d].grad is not None) if %r else (vals[%d].grad is None)\n" % (j, want_none, j)
        s += "print('REPRODUCED' if bad else 'NOT-REPRODUCED'); sys.exit(1 if bad else 0)\n"
    else:
        s += "print('NOT-REPRODUCED'); sys.exit(0)\n"
    path = common.write_replay(PROP, gradcase._safe("%s_%d" % (spec["name"], d)), s)
    ok, out = common.run_replay(path)
    if ok:
        res["status"] = common.VIOLATION
        res["violations"].append({"signature": "dag:%s" % msg.split("#")[0].strip(), "replay": path,
                                  "summary": "%s in program `%s` (constant leaves %s)" % (msg, src.replace("\n", "; "), list(pat))})
    else:
        res["status"] = common.INCONCLUSIVE
        res["notes"].append("structural finding did not reproduce: %s :: %s" % (msg, (out or "")[-300:]))


# ------------------------------------------------------------------ (b) op-rich compositions
UNARY_T = [
    "mg.negative({a})", "mg.exp({a})", "mg.square({a})", "mg.sum({a})", "mg.sum({a}, axis=0)", "mg.sum({a}, axis=-1, keepdims=True)",
    "mg.mean({a}, axis=0)", "mg.max({a}, axis=-1)", "{a}[0]", "{a}[..., 1:]", "{a}[[0, 0]]", "{a}[IX32]", "{a}[..., IXU8]", "{a}.reshape(-1)", "{a}.T",
    "mg.broadcast_to({a}, (2,) + {a}.shape) if hasattr({a}, 'shape') else None", "mg.concatenate([{a}, {a}], axis=0)", "mg.where(M, {a}, 1.5)",
]
BINARY_T = [
    "{a} + {b}", "{a} - {b}", "{a} * {b}", "{a} / {b}", "mg.maximum({a}, {b})", "mg.matmul({a}, {b})",
    "mg.einsum('ij,jk', {a}, {b})", "mg.concatenate([{a}, {b}], axis=-1)", "mg.where(M, {a}, {b})",
]
REDUCED_U = ["mg.sum({a}, axis=0)", "{a}[..., 1:]", "{a}.T", "mg.exp({a})"]
REDUCED_B = ["{a} + {b}", "{a} * {b}", "{a} / {b}", "mg.matmul({a}, {b})", "mg.maximum({a}, {b})"]
POOL = ["x", "y", "z", "c", "2.0"]
SHAPES = {"thorough": {"x": (2, 3), "y": (3,), "z": (2, 1), "c": (3,)},
          "quick": {"x": (2, 2), "y": (2,), "z": (2, 1), "c": (2,)}}


def _stmts(pool, must_use=None, U=UNARY_T, B=BINARY_T):
    out = []
    for t in U:
        for a in pool:
            if a == "2.0":
                continue
            if must_use is None or a == must_use:
                out.append(t.format(a=a))
    for t in B:
        for a in pool:
            for b in pool:
                if a == "2.0" and b == "2.0":
                    continue
                if "maximum" in t and a == b:
                    continue  # tie everywhere: only the documented convention applies (C02)
                if must_use is None or must_use in (a, b):
                    out.append(t.format(a=a, b=b))
    return out


def prog_cases(tier):
    progs = []
    first = _stmts(POOL)
    for s1 in first:
        progs.append("v1 = %s\nout = v1" % s1)
    if tier == "thorough":
        tie = lambda st: ("maximum(" in st) or ("mg.max(" in st)
        for s1 in first:
            for s2 in _stmts(POOL + ["v1"], must_use="v1"):
                if tie(s1) and tie(s2):
                    # two tie-forking operations on (2,3) operands exceed the path budget; such pairs run in the quick tier on (2,2)
                    continue
                if tie(s2) and ("z" in s2.replace("mg.maximum", "") or any(k in s1 for k in ("reshape(-1)", "concatenate", "broadcast_to"))):
                    # the tie-forking op would act on >= 12 broadcast elements (3^12 orderings): beyond the path budget
                    continue
                progs.append("v1 = %s\nv2 = %s\nout = v2" % (s1, s2))
        small = ["x", "y", "2.0"]
        n3 = 0
        f1 = _stmts(small, U=REDUCED_U, B=REDUCED_B)
        for s1 in f1:
            for s2 in _stmts(small + ["v1"], must_use="v1", U=REDUCED_U, B=REDUCED_B):
                if tie(s1) and tie(s2):
                    continue
                for s3 in _stmts(small + ["v1", "v2"], must_use="v2", U=REDUCED_U, B=[b for b in REDUCED_B if "maximum" not in b]):
                    # (maximum of two derived polynomial operands makes every path-feasibility query nonlinear: minutes per program)
                    n3 += 1
                    if n3 % 8 == 0:  # stated bound: every 8th depth-3 program
                        progs.append("v1 = %s\nv2 = %s\nv3 = %s\nout = v3" % (s1, s2, s3))
    else:
        # quick: full alphabet on the leaves x, y and the constant c, followed by a reduced-alphabet statement
        for s1 in _stmts(["x", "y"]):
            for s2 in _stmts(POOL + ["v1"], must_use="v1", U=REDUCED_U + ["mg.max({a}, axis=-1)", "{a}[[0, 0]]"],
                             B=REDUCED_B + ["mg.where(M, {a}, {b})"]):
                progs.append("v1 = %s\nv2 = %s\nout = v2" % (s1, s2))
    # the same programs with leaves that already hold a gradient from an earlier backward pass, for programs whose first statement
    # is a view operation (view ops do not reset the gradients of their inputs)
    isview = lambda st: any(k in st for k in (".T", "reshape(", "[0]", "[..., 1:]"))
    progs += ["#PREGRAD\n" + p for p in progs if isview(p.split("\n")[0])][:: (1 if tier == "quick" else 3)]
    out = []
    size = 80
    for i in range(0, len(progs), size):
        out.append({"kind": "prog", "name": "prog/%d" % i, "progs": progs[i : i + size]})
    for g in XPROGS:
        out.append({"kind": "xprog", "name": "xprog/" + g["name"], "spec": g})
    return out


# programs with a 0-d / 1-d tensor used as an exponent (fan-out of the exponent included). The library decides `** 1`, `** 2`
# shortcuts by equality tests, so the reference forward is written against NumPy (independent of the branch taken) and the
# equality paths are claimed too (the function is smooth there).
XPROGS = [
    dict(name="pow-learnable-exponent", leaves=[["x", [2]], ["y", [2]], ["p", []]], body="v1 = mg.exp(x) ** p\nv2 = v1 * y + p\nout = v2",
         ref_body="out = np.power(np.exp(x), p) * y + p", smooth_at_ties=True, seed="none"),
    dict(name="pow-exponent-diamond", leaves=[["x", [2]], ["p", []]], body="a = mg.exp(x)\nv1 = a ** p\nv2 = a ** (p * 1.0)\nout = v1 * v2 + mg.sum(p)",
         ref_body="a = np.exp(x)\nout = np.power(a, p) * np.power(a, p * 1.0) + p", smooth_at_ties=True, seed="none"),
    dict(name="pow-vector-exponent", leaves=[["x", [2]], ["p", [2]]], body="out = (mg.exp(x) ** p) * p",
         ref_body="out = np.power(np.exp(x), p) * p", smooth_at_ties=True, seed="none"),
    # an intermediate tensor passed to one op together with its own data array (a constant that happens to be the same ndarray object)
    dict(name="einsum-tensor-and-own-data", leaves=[["x", [2, 2]], ["w", [2, 2]]], carrs=[["c", [2, 2]]],
         body="h = (x + w) * w\nout = mg.einsum('ij,ij->i', h, h.data)", assume="eq(c, (x.data + w.data) * w.data)",
         ref_body="out = ((x + w) * w * c).sum(axis=1)", smooth_at_ties=True, seed="none"),
    dict(name="product-tensor-and-own-data", leaves=[["x", [2]], ["w", [2]]], carrs=[["c", [2]]],
         body="h = x * w\nout = mg.multiply_sequence(h, h.data, x)", assume="eq(c, x.data * w.data)",
         ref_body="out = x * w * c * x", smooth_at_ties=True, seed="none"),
    dict(name="pow-0d-base-0d-exponent", leaves=[["x", []], ["p", []], ["y", [2]]], body="out = (mg.exp(x) ** p) * y",
         ref_body="out = np.power(np.exp(x), p) * y", smooth_at_ties=True, seed="none"),
]


def run_prog_case(spec, tier, mg):
    res = common.new_result()
    res["discarded"] = 0
    res["programs"] = 0
    SH = SHAPES[tier]
    setup = ("M = np.array([True, False, True])" if tier == "thorough" else "M = np.array([True, False])") + \
        "\nIX32 = np.array([1, 0, 1, 1], dtype=np.int32)\nIXU8 = np.array([0, 0, 1], dtype=np.uint8)"
    for k, body in enumerate(spec["progs"]):
        # typing pre-pass on ordinary floats (ill-typed programs raise inside NumPy and are discarded)
        if not _well_typed(mg, setup, body, SH):
            res["discarded"] += 1
            continue
        pre = body.startswith("#PREGRAD\n")
        if pre:
            body = body[len("#PREGRAD\n"):]
        gs = {"name": "%s#%d" % (spec["name"], k), "leaves": [["x", list(SH["x"])], ["y", list(SH["y"])], ["z", list(SH["z"])]],
              "carrs": [["c", list(SH["c"])]], "setup": setup, "body": body, "seed": "none", "pre_grads": pre}
        # tie regions of maximum/max carry no claim in C01 (C02 checks the conventions): not explored
        # (thorough shapes: a few quotient programs need ~5 s of solver time per path; the per-program budget must outlast them, a
        # program that runs out of budget is reported as inconclusive, never as passed)
        r = gradcase.run(gs, tier, PROP, mg, max_paths=600, max_seconds=120 if tier == "quick" else 900, timeout_ms=8000, skip_ties=True)
        res["ties_skipped"] = res.get("ties_skipped", 0) + r.get("ties_skipped", 0)
        res["programs"] += 1
        for key in ("paths", "boundary_paths", "exc_paths", "unsat", "sat", "unknown"):
            res[key] += r[key]
        res["violations"] += r["violations"]
        if r["status"] == common.VIOLATION:
            res["status"] = common.VIOLATION
        elif r["status"] == common.INCONCLUSIVE and res["status"] == common.OK:
            res["status"] = common.INCONCLUSIVE
            res["notes"] += ["%s: %s" % (body.replace("\n", "; "), n) for n in r["notes"][-2:]]
        if "sample" in r and "sample" not in res:
            res["sample"] = r["sample"]
    return res


_FLOAT_MG = {}


def _well_typed(mg, setup, body, SH):
    """concrete dry run of the forward statements with the same library on float data (proxy forwards)"""
    env = gradcase.make_env(mg)
    exec(setup, env)
    rng = np.random.RandomState(0)
    env["x"] = mg.Tensor(rng.rand(*SH["x"]) + 0.5)
    env["y"] = mg.Tensor(rng.rand(*SH["y"]) + 0.5)
    env["z"] = mg.Tensor(rng.rand(*SH["z"]) + 0.5)
    env["c"] = rng.rand(*SH["c"]) + 0.5
    lib.reset_state()
    try:
        exec(body, env)
        out = env["out"]
        ok = isinstance(out, mg.Tensor) and not out.constant
        out.clear_graph()
        return ok
    except Exception:
        return False
    finally:
        lib.reset_state()


# ------------------------------------------------------------------ driver
def cases(tier):
    return dag_cases(tier) + prog_cases(tier)


def run_case(spec, tier):
    mg = common._WORKER["mg"]
    if spec["kind"] == "dag":
        return run_dag_case(spec, tier, mg)
    if spec["kind"] == "xprog":
        r = gradcase.run(dict(spec["spec"], name=spec["name"]), tier, PROP, mg, max_paths=200, max_seconds=120, timeout_ms=8000, skip_ties=False)
        r["programs"] = 1
        return r
    return run_prog_case(spec, tier, mg)


def main(argv=None):
    args = common.parse_args(argv)
    cs = cases(args.tier)
    if args.only:
        cs = [c for c in cs if args.only in c["name"]]

    def extra(results):
        return {"dag_programs": sum(len(c["dags"]) for c in cs if c["kind"] == "dag"),
                "composition_programs_well_typed": sum(r.get("programs", 0) for r in results if r),
                "composition_programs_ill_typed_discarded": sum(r.get("discarded", 0) for r in results if r)}

    describe = dict(
        level="other",
        rule="(a) every DAG over k leaves / n binary +,* nodes (k,n per bounds) x constant-flag patterns x {3-ary variant, swapped "
             "operands, second topological order}; (b) every well-typed straight-line program of the stated alphabet and depth. "
             "non-trivial = a program on which at least one gradient query was posed",
        explanation="programs are the enumerated input (exhaustive within the bound); inside each program all data are symbolic and "
                    "z3 decides grad == d(sum L)/dx for every leaf and every intermediate tensor (cut variables), for all real inputs; "
                    "tensors L does not depend on / constants must have grad None",
        functions=["mygrad.tensor_base.Tensor._op", "Tensor.backward", "Tensor._backward", "Tensor.clear_graph",
                   "mygrad._utils.collect_all_tensors_and_clear_grads", "mygrad._utils.reduce_broadcast",
                   "mygrad.operation_base.Operation.backward", "Operation.grad_post_process_fn", "backward_var of the ops in the alphabet"],
        bounds={"dag": "k in {2,3}, n <= 3 (quick); thorough adds k=2,n=4 (all 43 200) and every 16th of the 302 400 DAGs with k=3,n=4; leaf shapes (2,),(),(1,)", "compositions":
                "depth <= 2 full alphabet (quick); + depth 3 reduced alphabet (thorough); leaves (2,3),(3,),(2,1), constant (3,), scalar"},
        assumptions=["real arithmetic", "compositional argument (correct per-op VJP + correct traversal => correct total derivative) for "
                     "graphs beyond the bound is on paper, not decided by the solver"],
        outside=["graphs larger than the bound", "ops outside the alphabet (covered one at a time by C02)"],
        exhaustive=True,
    )
    from symnp import selftest

    return common.main(PROP, "harness.C01", cs, args.tier, args.seed, describe, preflight=selftest.run, extra_evidence=extra,
                       deadline_s=1200 if args.tier == "quick" else 3400)


if __name__ == "__main__":
    sys.exit(main())
