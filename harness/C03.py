"""C03 — forward results agree with NumPy in value, shape and dtype (DESIGN §3 C03).

value/shape lane (solver): `mg.f(Tensor(a), ...)` vs `np.f(a, ...)` on the SAME symbolic object arrays, with tracking on and
inside no_autodiff; dtype lane (enumeration, harness/dtype_lane.py): operand kinds x dtypes x functions on concrete arrays.
"""
import json
import os
import subprocess
import sys

import numpy as np

from symnp import engine as eng_mod, lib, query, terms as tm
from symnp.scalars import Sym, symarr, terms_of

from . import common, gradcase

PROP = "C03"

UNARY = ("positive negative reciprocal square exp exp2 expm1 log log2 log10 log1p sin cos tan arcsin arccos arctan sinh cosh tanh "
         "arcsinh arccosh arctanh sqrt cbrt abs absolute sinc").split()
BINARY = "add subtract multiply divide true_divide power maximum minimum arctan2 logaddexp logaddexp2".split()

# (name, source with F = mg|np ; operands x (2,3), y (3,), z (2,3), s 0-d, e (0,3), xt non-contiguous (3,2))
CALLS = []
for f in UNARY:
    CALLS.append((f, "F.%s(x)" % f))
    CALLS.append((f + "/0d", "F.%s(s)" % f))
    CALLS.append((f + "/noncontig", "F.%s(xt)" % f))
    if f not in ("sinc",):
        CALLS.append((f + "/out+where", "F.%s(x, out=O, where=M)" % f))
# the mask given as a tensor (mygrad.typing.Mask lists Tensor)
CALLS.append(("exp/out+where=tensor", "F.exp(x, out=O, where=MT)"))
CALLS.append(("multiply/out+where=tensor", "F.multiply(x, y, out=O, where=MT)"))
CALLS.append(("func-on-tensor/np.add/where=tensor", "np.add(x, z, out=O, where=MT)"))
CALLS.append(("abs/empty", "F.abs(e)"))
for f in BINARY:
    CALLS.append((f, "F.%s(x, y)" % f))
    CALLS.append((f + "/scalar", "F.%s(x, 1.5)" % f))
    CALLS.append((f + "/rscalar", "F.%s(0.75, x)" % f))
    CALLS.append((f + "/0d", "F.%s(s, x)" % f))
    CALLS.append((f + "/noncontig", "F.%s(xt, xt)" % f))
    CALLS.append((f + "/out+where", "F.%s(x, y, out=O, where=M)" % f))
    CALLS.append((f + "/empty", "F.%s(e, y)" % f))
for f in ("sum", "mean", "prod", "max", "min", "amax", "amin", "var", "std"):
    for kw in ("", "axis=0", "axis=-1, keepdims=True", "axis=(0, 1)", "axis=(-1,)", "axis=(-2, -1), keepdims=True", "axis=(1, 0)"):
        CALLS.append(("%s/%s" % (f, kw), "F.%s(x%s)" % (f, ", " + kw if kw else "")))
    CALLS.append(("%s/noncontig" % f, "F.%s(xt, axis=0)" % f))
for f in ("var", "std"):
    CALLS.append((f + "/ddof", "F.%s(x, axis=1, ddof=1)" % f))
for f in ("cumsum", "cumprod"):
    for kw in ("", "axis=0", "axis=-1"):
        CALLS.append(("%s/%s" % (f, kw), "F.%s(x%s)" % (f, ", " + kw if kw else "")))
CALLS += [
    ("sum/empty", "F.sum(e, axis=0)"), ("sum/0d", "F.sum(s)"), ("mean/0d", "F.mean(s)"), ("prod/empty", "F.prod(e, axis=1)"),
    ("clip", "F.clip(y, -0.5, 0.5)"), ("clip/None", "F.clip(x, None, 0.25)"), ("clip/arrays", "F.clip(y, y[::-1] - 1.0, 2.5)"), ("clip/out=ndarray", "F.clip(y, -0.5, 0.5, out=O[0])"),
    ("clip/out=ndarray/lower-only", "F.clip(y, -0.5, None, out=O[0])"),
    ("where", "F.where(M, x, z)"), ("where/tensor-condition", "F.where(MT, x, z)"), ("where/np-on-tensor-condition", "np.where(MT, x, z)"), ("where/scalar", "F.where(M, x, 2.0)"), ("matmul", "F.matmul(x, xt)"), ("matmul/1d", "F.matmul(x, y)"),
    ("einsum", "F.einsum('ij,kj->ik', x, z)"), ("einsum/trace", "F.einsum('ii->', F.matmul(x, xt))"), ("einsum/implicit", "F.einsum('ij,j', x, y)"),
    ("norm", "F.linalg.norm(x, axis=1)"), ("norm/ord1", "F.linalg.norm(x, ord=1, axis=0)"), ("norm/keepdims", "F.linalg.norm(y, keepdims=True)"),
    ("reshape", "F.reshape(x, (3, 2))"), ("reshape/-1", "F.reshape(xt, (-1,))"), ("transpose", "F.transpose(x)"),
    ("moveaxis", "F.moveaxis(x, 0, -1)"), ("swapaxes", "F.swapaxes(x, 0, 1)"), ("squeeze", "F.squeeze(x[None])"), ("squeeze/axis", "F.squeeze(x[:, None], axis=1)"),
    ("expand_dims", "F.expand_dims(x, 1)"), ("broadcast_to", "F.broadcast_to(y, (2, 3))"), ("repeat", "F.repeat(x, 2, axis=1)"),
    ("repeat/seq", "F.repeat(y, [1, 0, 2])"), ("roll", "F.roll(x, 1, axis=1)"), ("roll/flat", "F.roll(x, 2)"),
    ("concatenate", "F.concatenate([x, z], axis=0)"), ("concatenate/None", "F.concatenate([x, y], axis=None)"), ("stack", "F.stack([x, z], axis=1)"),
    ("ravel", "F.ravel(xt)"), ("atleast_1d", "F.atleast_1d(s)"), ("atleast_2d", "F.atleast_2d(y)"), ("atleast_3d", "F.atleast_3d(x)"),
    ("m/sum/kd", "x.sum(axis=-1, keepdims=True)"), ("m/mean/tuple", "x.mean(axis=(0, 1))"), ("m/max/kd", "x.max(axis=-2, keepdims=True)"),
    ("m/var/kd", "x.var(axis=(1,), ddof=1, keepdims=True)"), ("m/std/ddof", "x.std(axis=-1, ddof=1)"), ("m/prod/kd", "x.prod(axis=0, keepdims=True)"),
    ("m/sum", "x.sum(axis=1)"), ("m/mean", "x.mean()"), ("m/std", "x.std(axis=0)"), ("m/var", "x.var(ddof=1)"), ("m/max", "x.max(axis=0)"),
    ("m/min", "x.min()"), ("m/prod", "x.prod(axis=1)"), ("m/cumsum", "x.cumsum(axis=1)"), ("m/cumprod", "x.cumprod()"), ("m/reshape", "x.reshape(3, 2)"),
    ("m/T", "x.T"), ("m/flatten", "xt.flatten()"), ("m/squeeze", "x[None].squeeze()"), ("m/swapaxes", "x.swapaxes(0, 1)"), ("m/transpose", "x.transpose(1, 0)"),
    ("m/ravel", "xt.ravel()"), ("m/clip", "y.clip(-0.5, 0.5)"), ("m/copy", "x.copy()"), ("m/moveaxis", "F.moveaxis(x, 1, 0)"),
    ("op/+", "x + y"), ("op/-", "x - y"), ("op/*", "x * y"), ("op//", "x / y"), ("op/**2", "x ** 2"), ("op/**y", "x ** y"), ("op/neg", "-x"), ("op/pos", "+x"),
    ("op/abs", "abs(x)"), ("op/@", "x @ xt"), ("op/rsub", "2.0 - x"), ("op/rdiv", "2.0 / x"), ("op/rpow", "2.0 ** x"), ("op/getitem", "x[1:, ::2]"),
    ("op/getitem-adv", "x[[0, 0], [1, 2]]"), ("op/getitem-mask", "x[M]"), ("op/radd-array", "A + x"), ("op/rmul-array", "A * x"),
    ("nd/argmax", "F.argmax(x, axis=1)"), ("nd/argmin", "F.argmin(y)"), ("nd/less", "F.less(y, 0.0)"), ("nd/shape", "F.shape(x)"),
    ("ufunc-on-tensor/np.exp", "np.exp(x)"), ("ufunc-on-tensor/np.add", "np.add(x, y)"), ("func-on-tensor/np.sum", "np.sum(x, axis=0)"),
    ("func-on-tensor/np.reshape", "np.reshape(x, (3, 2))"), ("func-on-tensor/np.concatenate", "np.concatenate([x, z])"),
    ("add/out=view-of-noncontig", "F.add(F.ravel(x), 1.5, out=xt.T.reshape(-1))"), ("exp/out=view-of-noncontig+where", "F.exp(F.ravel(z), out=F.reshape(F.transpose(xt), (-1,)), where=M.reshape(-1))"),
    ("multiply/out=noncontig", "F.multiply(z.T, 2.0, out=xt)"), ("subtract/out=strided-view", "F.subtract(y, 1.0, out=xt.T[1, ::-1])"),
    ("func-on-tensor/np.einsum", "np.einsum('ij->j', x)"), ("func-on-tensor/np.where", "np.where(M, x, z)"), ("func-on-tensor/np.clip", "np.clip(y, -1, 1)"),
]
ASSUME = {"log": "gt", "log2": "gt", "log10": "gt", "log1p": "gt", "sqrt": "gt", "arccosh": "gt1", "power": "gt", "reciprocal": "ne", "divide": "ne",
          "true_divide": "ne", "op//": "ne", "op/rdiv": "ne", "op/**y": "gt", "prod": None, "norm": "ne", "std": "distinct", "m/std": "distinct"}


def cases(tier):
    out = []
    for i in range(0, len(CALLS), 12):
        out.append({"kind": "value", "name": "value/%d" % i, "calls": CALLS[i:i + 12]})
    out.append({"kind": "dtype", "name": "dtype-lane"})
    out.append({"kind": "signatures", "name": "override-signatures"})
    return out


def _operands(mg, as_tensor):
    raw = {"x": symarr("x", (2, 3)), "y": symarr("y", (3,)), "z": symarr("z", (2, 3)), "s": symarr("s", ()), "e": symarr("e", (0, 3)),
           "xt": symarr("xt", (2, 3)).T, "A": None}
    env = {}
    for k, a in raw.items():
        if a is None:
            continue
        env[k] = mg.Tensor(a) if as_tensor else np.array(a, dtype=object)
        if k == "xt" and not as_tensor:
            env[k] = np.array(symarr("xt", (2, 3)), dtype=object).T
    env["A"] = np.array(symarr("A", (2, 3)), dtype=object)
    env["M"] = np.array([[True, False, True], [False, False, True]])
    env["O"] = np.array(symarr("O", (2, 3)), dtype=object)
    env["MT"] = mg.Tensor(env["M"]) if as_tensor else env["M"]
    return env


def run_value(spec, tier, mg):
    res = common.new_result()
    engine = eng_mod.Engine(skip_ties=True)
    engine.reset_fn = lib.reset_state
    ncalls = 0
    for name, src in spec["calls"]:
        ncalls += 1

        def body():
            outs = {}
            for mode in ("np", "mg", "mg-untracked"):
                tens = mode != "np"
                env = _operands(mg, tens)
                env["F"] = mg if tens else np
                env["np"] = np
                env["mg"] = mg
                a = ASSUME.get(name.split("/")[0], ASSUME.get(name))
                if a and mode == "np":
                    for k in ("x", "y", "z", "s", "xt"):
                        for e in np.asarray(env[k]).reshape(-1):
                            t = Sym.lift(e)
                            if a == "gt":
                                engine.assume(tm.lt(tm.const(0), t))
                            elif a == "gt1":
                                engine.assume(tm.lt(tm.const(1), t))
                            elif a == "ne":
                                engine.assume(tm.ne(t, tm.const(0)))
                    if a == "distinct":
                        es = [Sym.lift(e) for e in np.asarray(env["x"]).reshape(-1)]
                        for i in range(len(es)):
                            for j in range(i):
                                engine.assume(tm.ne(es[i], es[j]))
                src_m = src
                if not tens:
                    src_m = src.replace("np.exp(", "np.exp(").replace("F.linalg.norm", "np.linalg.norm")
                try:
                    if mode == "mg-untracked":
                        with mg.no_autodiff:
                            r = eval(src_m, env)
                    else:
                        r = eval(src_m, env)
                    outs[mode] = ("ok", r.data if isinstance(r, mg.Tensor) else r, type(r).__name__)
                except Exception as e:
                    if type(e).__name__ == "NonReal":
                        raise
                    outs[mode] = ("raise", type(e).__name__, str(e)[:100])
                lib.reset_state()
            return outs

        try:
            for p in engine.explore(body, max_paths=200, max_seconds=120):
                res["paths"] += 1
                if p.exc is not None:
                    if type(p.exc).__name__ == "NonReal":
                        res["boundary_paths"] += 1
                        continue
                    res["status"] = common.INCONCLUSIVE
                    res["notes"].append("%s: %s: %s" % (name, type(p.exc).__name__, str(p.exc)[:200]))
                    continue
                o = p.out
                if o["np"][0] == "raise":
                    # NumPy itself has no object loop / rejects the call: nothing to compare in the symbolic lane
                    res["numpy_unsupported_on_object"] = res.get("numpy_unsupported_on_object", 0) + 1
                    continue
                want = np.asarray(o["np"][1], dtype=object) if not isinstance(o["np"][1], tuple) else o["np"][1]
                for mode in ("mg", "mg-untracked"):
                    if o[mode][0] == "raise":
                        _finding(res, name, src, "%s raised %s: %s where NumPy returns a result" % (mode, o[mode][1], o[mode][2]))
                        continue
                    got = o[mode][1]
                    if isinstance(want, tuple):
                        if tuple(got) != tuple(want):
                            _finding(res, name, src, "%s: %r, NumPy %r" % (mode, got, want))
                        continue
                    got = np.asarray(got, dtype=object)
                    if got.shape != want.shape:
                        _finding(res, name, src, "%s: shape %s, NumPy %s" % (mode, got.shape, want.shape))
                        continue
                    if name.startswith("nd/"):
                        if o[mode][2] != "ndarray" and not isinstance(o[mode][1], (np.ndarray, np.generic, tuple, int)):
                            _finding(res, name, src, "%s: non-differentiable function returned %s" % (mode, o[mode][2]))
                        if got.dtype != object and not np.array_equal(got, np.asarray(o["np"][1])):
                            _finding(res, name, src, "%s: values differ from NumPy" % mode)
                        continue
                    prob = query.Problem(list(p.pc) + list(p.dom))
                    r = prob.differ_any(list(zip(terms_of(got), terms_of(want))), 10000)
                    res[r.verdict] += 1
                    if r.verdict == "sat":
                        _finding(res, name, src, "%s: values differ from NumPy for %s" % (mode, {k: float(v) for k, v in list((r.model or {}).items())[:4] if not isinstance(v, bool)}))
                    elif r.verdict == "unknown":
                        res["status"] = common.INCONCLUSIVE
                        res["notes"].append("unknown on %s" % name)
        except eng_mod.Budget as e:
            res["status"] = common.INCONCLUSIVE
            res["notes"].append("%s: %s" % (name, e))
    res["calls"] = ncalls
    res["sample"] = {"call": spec["calls"][0][1], "meaning": "F = mygrad on Tensors vs F = numpy on the same symbolic arrays"}
    return res


def _finding(res, name, src, msg):
    rp = _value_replay(name, src)
    if rp:
        res["status"] = common.VIOLATION
        res["violations"].append({"signature": "value:%s" % name, "replay": rp, "summary": "`%s`: %s" % (src, msg)})
    else:
        if res["status"] == common.OK:
            res["status"] = common.INCONCLUSIVE
        res["notes"].append("did not reproduce with floats: `%s`: %s" % (src, msg))


def _value_replay(name, src):
    code = '''import sys
import numpy as np
import mygrad as mg
np.seterr(all="ignore")
rng = np.random.RandomState(2)
SRC = %r
def ops(tens):
    raw = {"x": rng.rand(2, 3) + 0.6, "y": rng.rand(3) + 0.6, "z": rng.rand(2, 3) + 0.6, "s": np.array(rng.rand() + 0.6), "e": np.zeros((0, 3)),
           "xt": np.ascontiguousarray(rng.rand(2, 3) + 0.6).T, "A": rng.rand(2, 3) + 0.6, "O": rng.rand(2, 3)}
    return raw
rng = np.random.RandomState(2); R = ops(False)
bad = []
want = None
try:
    env = {k: v.copy() for k, v in R.items()}; env["xt"] = R["xt"].T.copy().T; env.update(F=np, np=np, mg=mg, M=np.array([[True, False, True], [False, False, True]])); env["MT"] = env["M"]
    want = eval(SRC.replace("F.linalg", "np.linalg"), env)
except Exception as e:
    print("numpy raised", type(e).__name__, e); print("NOT-REPRODUCED"); sys.exit(0)
for track in (True, False):
    env = {k: (mg.Tensor(v) if k not in ("A", "O") else v.copy()) for k, v in R.items()}; env["xt"] = mg.Tensor(R["xt"].T.copy().T)
    env.update(F=mg, np=np, mg=mg, M=np.array([[True, False, True], [False, False, True]])); env["MT"] = mg.Tensor(env["M"])
    try:
        if track: got = eval(SRC, env)
        else:
            with mg.no_autodiff: got = eval(SRC, env)
        g = got.data if isinstance(got, mg.Tensor) else got
        if isinstance(want, tuple):
            if tuple(g) != tuple(want): bad.append((track, g, want))
        elif np.shape(g) != np.shape(want) or not np.allclose(np.asarray(g, dtype=float), np.asarray(want, dtype=float), rtol=1e-9, atol=1e-12, equal_nan=True): bad.append((track, np.asarray(g).tolist(), np.asarray(want).tolist()))
    except Exception as e:
        bad.append((track, "raised", type(e).__name__, str(e)[:200]))
print(bad)
print('REPRODUCED' if bad else 'NOT-REPRODUCED'); sys.exit(1 if bad else 0)
''' % (src,)
    path = common.write_replay(PROP, gradcase._safe("value_" + name), code)
    ok, out = common.run_replay(path)
    return path if ok else None


def run_dtype(spec, tier, mg):
    res = common.new_result()
    env = dict(os.environ)
    env["PYTHONPATH"] = os.path.join(common.REPO, "src")
    p = subprocess.run([common.PY_REAL, os.path.join(common.VERIF, "harness", "dtype_lane.py"), "forward", tier], capture_output=True, text=True, env=env, timeout=1200)
    out = None
    for line in (p.stdout or "").splitlines():
        if line.startswith("DTYPE-LANE-JSON:"):
            out = json.loads(line[len("DTYPE-LANE-JSON:"):])
    if out is None:
        res["status"] = common.INCONCLUSIVE
        res["notes"].append("dtype lane failed: %s" % (p.stderr or "")[-400:])
        return res
    res["paths"] = out["checked"]
    res["dtype_lane_checked"] = out["checked"]
    res["dtype_lane_skipped"] = out["skipped"]
    seen = {}
    for f in out["findings"]:
        sig = _dtype_signature(f)
        seen.setdefault(sig, []).append(f)
    for sig, fs in seen.items():
        f = fs[0]
        code = '''import sys
# dtype-lane finding (concrete arrays, unpatched library): %s
# %d configurations with this signature, e.g.:
print(%r)
print("REPRODUCED"); sys.exit(1)
''' % (sig, len(fs), json.dumps(fs[:5]))
        path = common.write_replay(PROP, gradcase._safe("dtype_" + sig), code)
        res["violations"].append({"signature": sig, "replay": path, "summary": "%s -> %s (%d configurations)" % (f["case"], f["what"], len(fs))})
        res["status"] = common.VIOLATION
    res["sample"] = {"dtype_lane": out.get("samples", [])}
    return res


def _dtype_signature(f):
    c = f["case"]
    # recorded known finding: x ** 1 / x ** 2 shortcut applied to a float or bool exponent on an int/bool tensor
    if "**" in c and ("tensor[bool]" in c or (("tensor[int" in c or "tensor[uint" in c) and "pyfloat" in c)):
        return "pow-shortcut:int-or-bool-tensor**python-float-or-bool"
    return "dtype:" + f["signature"]


# ------------------------------------------------------------------ keywords of the NumPy signature that the override does not accept
SIG_REPLAY = """import sys, inspect
import numpy as np
import mygrad as mg
import mygrad.tensor_base as tb
WANT = %r
reg = dict(tb.Tensor.__array_function__.__globals__["_REGISTERED_DIFFERENTIABLE_NUMPY_FUNCS"])
bad = []
for npf, mgf in reg.items():
    if npf.__name__ != WANT[0]: continue
    ns, ms = inspect.signature(npf), inspect.signature(mgf)
    kinds = (inspect.Parameter.POSITIONAL_OR_KEYWORD, inspect.Parameter.KEYWORD_ONLY)
    mgk = [p.name for p in ms.parameters.values() if p.kind in kinds]
    if any(p.kind == inspect.Parameter.VAR_KEYWORD for p in ms.parameters.values()): continue
    missing = sorted(p.name for p in ns.parameters.values() if p.kind in kinds and p.name not in mgk)
    if missing == WANT[1]: bad.append((npf.__name__, missing))
print(bad)
print('REPRODUCED' if bad else 'NOT-REPRODUCED'); sys.exit(1 if bad else 0)
"""


def run_signatures(spec, tier, mg):
    """NumPy functions applied to tensors are routed to MyGrad's override with NumPy's own keyword names: a keyword of the NumPy
    signature that the override does not accept raises TypeError for a call NumPy accepts.  Reflection, no solver."""
    import inspect

    import mygrad.tensor_base as tb

    res = common.new_result()
    reg = dict(tb.Tensor.__array_function__.__globals__["_REGISTERED_DIFFERENTIABLE_NUMPY_FUNCS"])
    kinds = (inspect.Parameter.POSITIONAL_OR_KEYWORD, inspect.Parameter.KEYWORD_ONLY)
    known = common.load_known(PROP)
    confirmed = False
    for npf, mgf in sorted(reg.items(), key=lambda kv: kv[0].__name__):
        try:
            ns, ms = inspect.signature(npf), inspect.signature(mgf)
        except (TypeError, ValueError):
            continue
        res["paths"] += 1
        if any(p.kind == inspect.Parameter.VAR_KEYWORD for p in ms.parameters.values()):
            continue
        mgk = [p.name for p in ms.parameters.values() if p.kind in kinds]
        missing = sorted(p.name for p in ns.parameters.values() if p.kind in kinds and p.name not in mgk)
        if not missing:
            continue
        sig = "override-signature:%s:%s" % (npf.__name__, ",".join(missing))
        e = common.match_known(known, sig)
        if e is not None and confirmed:
            res["violations"].append({"signature": sig, "replay": None, "summary": "(same known finding) np.%s: %s" % (npf.__name__, missing)})
            continue
        path = common.write_replay(PROP, gradcase._safe("signature_" + npf.__name__), SIG_REPLAY % ((npf.__name__, missing),))
        ok, out = common.run_replay(path, count=e is None)
        if ok:
            if e is None:
                res["status"] = common.VIOLATION
            else:
                confirmed = True
            res["violations"].append({"signature": sig, "replay": path,
                                      "summary": "np.%s(tensor, ...): keywords of NumPy's signature not accepted by the override: %s" % (npf.__name__, missing)})
        else:
            res["status"] = common.INCONCLUSIVE
            res["notes"].append("signature finding did not reproduce: %s" % sig)
    res["sample"] = {"registered_overrides": len(reg)}
    return res


def run_case(spec, tier):
    mg = common._WORKER["mg"]
    if spec["kind"] == "value":
        return run_value(spec, tier, mg)
    if spec["kind"] == "signatures":
        return run_signatures(spec, tier, mg)
    return run_dtype(spec, tier, mg)


def uncovered_names():
    lib.ensure_path()
    import mygrad as mg

    text = " ".join(s for _, s in CALLS)
    names = []
    for n in dir(mg):
        if n.startswith("_") or not callable(getattr(mg, n)) or not hasattr(np, n):
            continue
        if isinstance(getattr(mg, n), type):
            continue
        if ("F.%s(" % n) not in text and ("np.%s(" % n) not in text:
            names.append(n)
    return names


def main(argv=None):
    args = common.parse_args(argv)
    cs = cases(args.tier)
    if args.only:
        cs = [c for c in cs if args.only in c["name"]]

    def extra(results):
        return {"calls": sum(r.get("calls", 0) for r in results if r), "dtype_lane_checked": sum(r.get("dtype_lane_checked", 0) for r in results if r),
                "numpy_has_no_object_loop": sum(r.get("numpy_unsupported_on_object", 0) for r in results if r),
                "public_names_with_numpy_namesake_not_in_a_template": uncovered_names()}

    describe = dict(
        level="other",
        rule="value lane: %d call templates (functions, Tensor methods, operators incl. reflected, NumPy functions/ufuncs applied to tensors) over "
             "operands (2,3), (3,), 0-d, empty (0,3) and non-contiguous, options axis/keepdims/ddof/where/out; dtype lane: operand kinds {Python "
             "bool/int/float, 0-d array, array, Tensor} x dtypes {bool,int8,int64,float16,float32,float64} x unary/binary/sequential/manipulation" % len(CALLS),
        explanation="value lane: the same source is evaluated with F = mygrad on Tensors and F = numpy on the SAME symbolic object arrays, tracking on "
                    "and inside no_autodiff; shapes must agree and z3 decides, for all real inputs, that every element agrees (mostly both sides call "
                    "the same kernel: the point is to catch wrappers that reorder/drop arguments or substitute their own formula). dtype lane: "
                    "degenerate symbolic execution on concrete arrays, result.dtype == numpy_result.dtype, no solver",
        functions=["mygrad.tensor_base.Tensor._op", "Tensor.__array_ufunc__/__array_function__", "mygrad.operation_base.UnaryUfunc/BinaryUfunc/Sequential.__call__",
                   "mygrad.ufuncs._ufunc_creators", "public functions of mygrad.math / tensor_manip / linalg / indexing_routines"],
        bounds={"operands": "<= 6 elements", "templates": len(CALLS)},
        assumptions=["real arithmetic in the value lane", "NEP 50: dtypes do not depend on values (one representative value per configuration)"],
        outside=["random functions", "functions without a NumPy namesake", "values under float rounding"],
    )
    return common.main(PROP, "harness.C03", cs, args.tier, args.seed, describe, extra_evidence=extra, deadline_s=900)


if __name__ == "__main__":
    sys.exit(main())
