"""C11 — every public entry point to an operation behaves identically (DESIGN §3 C11).

For every registered ufunc / NumPy override (registries read at run time): the MyGrad function, the NumPy function or ufunc
applied to tensors, the Tensor method and the operator spelling (incl. reflected, augmented and out= forms) are run on the
same symbolic operands; shape, constant flag, result terms and - after backward(g) - operand gradient terms must agree.
"""
import sys

import numpy as np

from symnp import engine as eng_mod, lib, query, terms as tm
from symnp.scalars import Sym, symarr, terms_of

from . import common, gradcase

PROP = "C11"

# operator / method spellings per numpy name; {a} {b} operands (tensors), results bound to r
OPERATORS = {
    "add": ["{a} + {b}", "{a}.__radd__({b})", "r_ = +{a}; r_ += {b}; r = r_", "r_ = +{a}; mg.add({a}, {b}, out=r_); r = r_", "np.add({a}, {b}, out=O_t())"],
    "subtract": ["{a} - {b}", "{b}.__rsub__({a})", "r_ = +{a}; r_ -= {b}; r = r_"],
    "multiply": ["{a} * {b}", "{a}.__rmul__({b})", "r_ = +{a}; r_ *= {b}; r = r_", "r_ = +{a}; np.multiply({a}, {b}, out=r_); r = r_"],
    "divide": ["{a} / {b}", "{b}.__rtruediv__({a})", "r_ = +{a}; r_ /= {b}; r = r_", "mg.true_divide({a}, {b})", "np.true_divide({a}, {b})"],
    "power": ["{a} ** {b}", "{b}.__rpow__({a})", "r_ = +{a}; r_ **= {b}; r = r_"],
    "negative": ["-{a}"],
    "positive": ["+{a}"],
    "absolute": ["abs({a})", "mg.abs({a})", "np.abs({a})"],
    "matmul": ["{a} @ {b}", "{b}.__rmatmul__({a})"],
    "square": ["{a} ** 2", "{a} ** 2.0", "r_ = +{a}; r_ **= 2; r = r_"],
}
METHODS = {
    "sum": ["{a}.sum(axis=1)", "mg.sum({a}, axis=1)", "np.sum({a}, axis=1)"],
    "mean": ["{a}.mean(axis=0, keepdims=True)", "mg.mean({a}, axis=0, keepdims=True)", "np.mean({a}, axis=0, keepdims=True)"],
    "prod": ["{a}.prod(axis=1)", "mg.prod({a}, axis=1)", "np.prod({a}, axis=1)"],
    "var": ["{a}.var(axis=1, ddof=1)", "mg.var({a}, axis=1, ddof=1)", "np.var({a}, axis=1, ddof=1)"],
    "std": ["{a}.std(axis=0)", "mg.std({a}, axis=0)", "np.std({a}, axis=0)"],
    "max": ["{a}.max(axis=1)", "mg.max({a}, axis=1)", "np.max({a}, axis=1)", "mg.amax({a}, axis=1)", "np.amax({a}, axis=1)"],
    "min": ["{a}.min(axis=0)", "mg.min({a}, axis=0)", "np.min({a}, axis=0)", "mg.amin({a}, axis=0)", "np.amin({a}, axis=0)"],
    "cumsum": ["{a}.cumsum(axis=1)", "mg.cumsum({a}, axis=1)", "np.cumsum({a}, axis=1)"],
    "cumprod": ["{a}.cumprod(axis=0)", "mg.cumprod({a}, axis=0)", "np.cumprod({a}, axis=0)"],
    "reshape": ["{a}.reshape(3, 2)", "{a}.reshape((3, 2))", "mg.reshape({a}, (3, 2))", "np.reshape({a}, (3, 2))"],
    "transpose": ["{a}.T", "{a}.transpose()", "{a}.transpose(1, 0)", "{a}.transpose((1, 0))", "mg.transpose({a})", "np.transpose({a})", "mg.transpose({a}, 1, 0)"],
    "swapaxes": ["{a}.swapaxes(0, 1)", "mg.swapaxes({a}, 0, 1)", "np.swapaxes({a}, 0, 1)"],
    # axes given from the end, alone and mixed with axes given from the front; options passed to methods
    "transpose/neg": ["{a}.transpose(-1, 0)", "{a}.transpose((-1, 0))", "mg.transpose({a}, (-1, 0))", "np.transpose({a}, (-1, 0))", "mg.transpose({a}, -1, 0)", "{a}.T", "{a}.transpose(-1, -2)"],
    "transpose/3d-mixed": ["{a}.reshape(1, 2, 3).transpose(0, -1, 1)", "{a}.reshape(1, 2, 3).transpose((0, -1, 1))", "mg.transpose({a}.reshape(1, 2, 3), (0, -1, 1))",
                           "np.transpose({a}.reshape(1, 2, 3), (0, -1, 1))", "mg.swapaxes({a}.reshape(1, 2, 3), 1, 2)", "{a}.reshape(1, 2, 3).transpose(0, 2, 1)"],
    "transpose/3d-cube-mixed": ["{a}[:, :2].reshape(2, 2, 1).transpose(-2, 0, -1)", "mg.transpose({a}[:, :2].reshape(2, 2, 1), (-2, 0, -1))", "np.transpose({a}[:, :2].reshape(2, 2, 1), (-2, 0, -1))",
                                "{a}[:, :2].reshape(2, 2, 1).transpose(1, 0, 2)"],
    "swapaxes/neg": ["{a}.swapaxes(-1, 0)", "mg.swapaxes({a}, -1, 0)", "np.swapaxes({a}, -1, 0)", "{a}.T"],
    "moveaxis/neg": ["{a}.moveaxis(-1, 0)", "mg.moveaxis({a}, -1, 0)", "np.moveaxis({a}, -1, 0)", "{a}.T"],
    "sum/neg": ["{a}.sum(axis=-1)", "mg.sum({a}, axis=-1)", "np.sum({a}, axis=-1)", "{a}.sum(axis=1)", "{a}.sum(-1)"],
    "sum/tuple+keepdims": ["{a}.sum(axis=(0, -1), keepdims=True)", "mg.sum({a}, axis=(0, -1), keepdims=True)", "np.sum({a}, axis=(0, -1), keepdims=True)", "{a}.sum(keepdims=True)"],
    "std/ddof": ["{a}.std(axis=0, ddof=1)", "mg.std({a}, axis=0, ddof=1)", "np.std({a}, axis=0, ddof=1)", "{a}.std(0, 1)"],
    "var/keepdims": ["{a}.var(axis=1, keepdims=True)", "mg.var({a}, axis=1, keepdims=True)", "np.var({a}, axis=1, keepdims=True)", "{a}.var(1, 0, True)"],
    "max/keepdims": ["{a}.max(axis=-1, keepdims=True)", "mg.max({a}, axis=-1, keepdims=True)", "np.max({a}, axis=-1, keepdims=True)", "{a}.max(1, True)"],
    "prod/keepdims": ["{a}.prod(axis=0, keepdims=True)", "mg.prod({a}, axis=0, keepdims=True)", "np.prod({a}, axis=0, keepdims=True)", "{a}.prod(0, True)"],
    "mean/neg": ["{a}.mean(axis=-2)", "mg.mean({a}, axis=-2)", "np.mean({a}, axis=-2)", "{a}.mean(0)"],
    "moveaxis": ["{a}.moveaxis(0, 1)", "mg.moveaxis({a}, 0, 1)", "np.moveaxis({a}, 0, 1)"],
    "squeeze": ["{a}[None].squeeze()", "mg.squeeze({a}[None])", "np.squeeze({a}[None])", "{a}[None].squeeze(axis=0)"],
    "ravel": ["{a}.ravel()", "mg.ravel({a})", "np.ravel({a})", "{a}.flatten()", "{a}.reshape(-1)"],
    "clip": ["{a}.clip(-0.5, 0.5)", "mg.clip({a}, -0.5, 0.5)", "np.clip({a}, -0.5, 0.5)", "mg.minimum(mg.maximum({a}, -0.5), 0.5)"],
    "expand_dims": ["mg.expand_dims({a}, 1)", "np.expand_dims({a}, 1)", "{a}[:, None]", "{a}[:, np.newaxis, :]"],
    "broadcast_to": ["mg.broadcast_to({b}, (2, 3))", "np.broadcast_to({b}, (2, 3))"],
    "concatenate": ["mg.concatenate([{a}, {a}], axis=1)", "np.concatenate([{a}, {a}], axis=1)"],
    "stack": ["mg.stack([{a}, {a}])", "np.stack([{a}, {a}])"],
    "repeat": ["mg.repeat({a}, 2, axis=0)", "np.repeat({a}, 2, axis=0)"],
    "roll": ["mg.roll({a}, 1, axis=1)", "np.roll({a}, 1, axis=1)"],
    "where": ["mg.where(M, {a}, {a} * 2.0)", "np.where(M, {a}, {a} * 2.0)"],
    "einsum": ["mg.einsum('ij,j->i', {a}, {b})", "np.einsum('ij,j->i', {a}, {b})", "mg.matmul({a}, {b})", "{a} @ {b}"],
    "norm": ["mg.linalg.norm({a}, axis=1)", "np.linalg.norm({a}, axis=1)"],
    "atleast_2d": ["mg.atleast_2d({b})", "np.atleast_2d({b})"],
}
POSITIVE_DOMAIN = {"std/ddof", "prod/keepdims", "log", "log2", "log10", "log1p", "sqrt", "power", "arccosh", "prod", "cumprod", "divide", "reciprocal", "norm", "std"}


def cases(tier):
    lib.ensure_path()
    import mygrad.tensor_base as tb

    out = []
    for uf in sorted(tb._REGISTERED_UFUNC, key=lambda u: u.__name__):
        out.append({"kind": "ufunc", "name": "ufunc/%s" % uf.__name__, "ufunc": uf.__name__, "nin": uf.nin})
    for n in METHODS:
        out.append({"kind": "spell", "name": "func/%s" % n, "which": n})
    # 0-d TENSOR exponents (symbolic, and concretely 1.0 / 2.0 / 3.0): every spelling must keep the exponent in the graph
    for ev in ("sym", "1.0", "2.0", "3.0"):
        out.append({"kind": "powexp", "name": "pow-tensor-exponent/%s" % ev, "exp": ev})
    out.append({"kind": "nodiff", "name": "nodiff"})
    out.append({"kind": "constonly", "name": "const-only"})
    fams = [c for c in out if c["kind"] in ("ufunc", "spell")]
    for i in range(0, len(fams), 12):
        out.append({"kind": "lane", "name": "concrete-lane/%d" % i, "members": fams[i:i + 12]})
    return out


def run_lane(spec, tier, mg):
    """dtype x constant-flag x layout grid on ordinary arrays, unpatched library in a child process (harness/c11_lane.py)"""
    import json
    import os
    import subprocess

    res = common.new_result()
    families = {m["name"]: _spellings(m) for m in spec["members"]}
    for m in spec["members"]:
        if m["kind"] == "ufunc" and m["ufunc"] != "matmul":
            # the dtype= option, alone and together with a Tensor out= target (a family of its own: computed in float64 by every member)
            n, args = m["ufunc"], ("{a}" if m["nin"] == 1 else "{a}, {b}")
            families[m["name"]] = families[m["name"]] + ["mg.%s(%s, dtype=np.float64)" % (n, args), "np.%s(%s, dtype=np.float64)" % (n, args),
                                                         "mg.%s(%s, out=O64(), dtype=np.float64)" % (n, args), "np.%s(%s, out=O64(), dtype=np.float64)" % (n, args),
                                                         "mg.%s(%s, out=O64().data, dtype=np.float64)" % (n, args)]
    env = dict(os.environ)
    env["PYTHONPATH"] = os.path.join(common.REPO, "src")
    lane = os.path.join(common.VERIF, "harness", "c11_lane.py")
    p = subprocess.run([common.PY_REAL, lane], input=json.dumps({"families": families}), capture_output=True, text=True, env=env, timeout=1200)
    out = None
    for line in (p.stdout or "").splitlines():
        if line.startswith("C11-LANE-JSON:"):
            out = json.loads(line[len("C11-LANE-JSON:"):])
    if out is None:
        res["status"] = common.INCONCLUSIVE
        res["notes"].append("concrete lane failed: %s" % (p.stderr or "")[-400:])
        return res
    res["paths"] = out["checked"]
    for name, f in out["findings"].items():
        src = "import json, subprocess, sys, os\nspec = %r\nenv = dict(os.environ)\np = subprocess.run([sys.executable, %r, '--replay'], input=json.dumps(spec), text=True, env=env)\nsys.exit(p.returncode)\n" % (
            {"families": {name: families[name]}}, lane)
        path = common.write_replay(PROP, gradcase._safe("lane_" + name), src)
        ok, o = common.run_replay(path)
        if ok:
            res["status"] = common.VIOLATION
            res["violations"].append({"signature": "lane:%s:%s" % (name, f[0].split(": ", 1)[-1][:40]), "replay": path, "summary": "; ".join(f[:3])})
        else:
            res["status"] = common.INCONCLUSIVE
            res["notes"].append("lane finding did not reproduce: %s" % f[:1])
    res["sample"] = {"families": list(families)[:3], "grid": "dtype {float64,float32,float16,int64,bool} x constant flags x layout {C, transposed}"}
    return res


def _spellings(spec):
    if spec["kind"] == "spell":
        return METHODS[spec["which"]]
    n = spec["ufunc"]
    if spec["nin"] == 1:
        sp = ["mg.%s({a})" % n, "np.%s({a})" % n, "r_ = +{a}; mg.%s({a}, out=r_); r = r_" % n, "mg.%s({a}, where=M, out=O_t())" % n, "np.%s({a}, where=M, out=O_t())" % n]
    else:
        if n == "matmul":
            sp = ["mg.matmul({a}, {b})", "np.matmul({a}, {b})"]
        else:
            sp = ["mg.%s({a}, {b})" % n, "np.%s({a}, {b})" % n, "mg.%s({a}, {b}, where=M, out=O_t())" % n, "np.%s({a}, {b}, where=M, out=O_t())" % n,
                  "mg.%s({a}, 1.5)" % n, "np.%s({a}, 1.5)" % n]
    return sp + OPERATORS.get(n, [])


def run_spellings(spec, tier, mg):
    res = common.new_result()
    engine = eng_mod.Engine(skip_ties=False)  # spellings are compared with each other: they must agree on tie paths too
    engine.reset_fn = lib.reset_state
    powexp = spec["kind"] == "powexp"
    sps = POW_SPELLINGS if powexp else _spellings(spec)
    name = "power" if powexp else (spec.get("ufunc") or spec["which"])
    groups = {}

    def body():
        results = []
        for sp in sps:
            small = name in ("maximum", "minimum", "clip", "absolute")
            ax = symarr("x", (1, 3) if small else (2, 3))
            ay = symarr("y", (3,))
            if name in POSITIVE_DOMAIN and not results:
                for e in list(ax.reshape(-1)) + list(ay.reshape(-1)):
                    engine.assume(tm.lt(tm.const(0), e.t))
            if name == "std" and not results:
                es = [e.t for e in ax.reshape(-1)]
                for i in range(len(es)):
                    for j in range(i):
                        engine.assume(tm.ne(es[i], es[j]))
            x, y = mg.Tensor(ax), mg.Tensor(ay)
            if powexp:
                # the second operand is a 0-d non-constant tensor
                y = mg.Tensor(symarr("e", ())) if spec["exp"] == "sym" else mg.Tensor(np.array(Sym(float(spec["exp"])), dtype=object))
            O = symarr("O", (2, 3))
            O = symarr("O", ax.shape)
            env = {"mg": mg, "np": np, "x": x, "y": y, "M": np.array([[True, False, True], [False, True, True]])[: ax.shape[0]],
                   "O_t": lambda: mg.Tensor(np.array(O, dtype=object))}
            src = sp.format(a="x", b="y")
            try:
                if "r =" in src or "; " in src:
                    exec(src, env)
                    r = env["r"]
                else:
                    r = eval(src, env)
                if not isinstance(r, mg.Tensor):
                    results.append((sp, "not-a-tensor", type(r).__name__))
                    lib.reset_state()
                    continue
                g = symarr("g", r.shape)
                rt = terms_of(r.data)
                shape, const = r.shape, r.constant
                r.backward(g)
                results.append((sp, "ok", shape, const, rt, None if x.grad is None else terms_of(x.grad), None if y.grad is None else terms_of(y.grad)))
            except Exception as e:
                if type(e).__name__ == "NonReal":
                    raise
                results.append((sp, "raise", "%s: %s" % (type(e).__name__, str(e)[:120])))
            lib.reset_state()
        return results

    findings = []
    try:
        for p in engine.explore(body, max_paths=1500, max_seconds=200):
            res["paths"] += 1
            if p.exc is not None:
                if type(p.exc).__name__ == "NonReal":
                    res["boundary_paths"] += 1
                    continue
                res["status"] = common.INCONCLUSIVE
                res["notes"].append("%s: %s" % (type(p.exc).__name__, str(p.exc)[:200]))
                continue
            rs = p.out
            # group by mask usage: where=/out= spellings form their own family (masked-out positions keep O)
            fams = {}
            for r in rs:
                key = ("where" in r[0], "1.5" in r[0], "2.0" in r[0] and "**" in r[0])
                fams.setdefault(key, []).append(r)
            prob = query.Problem(list(p.pc) + list(p.dom))
            for key, fam in fams.items():
                ref = next((r for r in fam if r[1] == "ok"), None)
                for r in fam:
                    if r[1] == "raise":
                        findings.append("`%s` raises %s while `%s` works" % (r[0], r[2], ref[0] if ref else "?")) if ref else None
                        continue
                    if r[1] == "not-a-tensor":
                        findings.append("`%s` returns %s, not a Tensor" % (r[0], r[2]))
                        continue
                    if r is ref:
                        continue
                    if r[2] != ref[2]:
                        findings.append("`%s` has shape %s, `%s` has %s" % (r[0], r[2], ref[0], ref[2]))
                        continue
                    if r[3] != ref[3]:
                        findings.append("`%s` constant=%s, `%s` constant=%s" % (r[0], r[3], ref[0], ref[3]))
                    pairs = list(zip(r[4], ref[4]))
                    for ga, gb, nm in ((r[5], ref[5], "x"), (r[6], ref[6], "y")):
                        if (ga is None) != (gb is None):
                            findings.append("`%s` and `%s` differ in whether %s receives a gradient" % (r[0], ref[0], nm))
                        elif ga is not None:
                            pairs += list(zip(ga, gb))
                    q = prob.differ_any(pairs, 10000)
                    res[q.verdict] += 1
                    if q.verdict == "sat":
                        findings.append("`%s` and `%s` differ in value or gradient" % (r[0], ref[0]))
                    elif q.verdict == "unknown":
                        res["status"] = common.INCONCLUSIVE
    except eng_mod.Budget as e:
        res["status"] = common.INCONCLUSIVE
        res["notes"].append(str(e))
    findings = sorted(set(f for f in findings if f))
    if findings:
        rp = _replay(spec, sps, name, ([1.0, 2.0, 3.0, 1.5] if spec.get("exp") == "sym" else [float(spec["exp"])]) if powexp else None)
        if rp:
            res["status"] = common.VIOLATION
            res["violations"].append({"signature": "spelling:%s:%s" % (name, findings[0][:40]), "replay": rp, "summary": "; ".join(findings[:3])})
        else:
            res["status"] = common.INCONCLUSIVE
            res["notes"].append("did not reproduce: %s" % findings[:2])
    res["spellings"] = len(sps)
    res["sample"] = {"operation": name, "spellings": sps[:6]}
    return res


def _replay(spec, sps, name, exps=None):
    src = '''import sys
import numpy as np
import mygrad as mg
np.seterr(all="ignore")
SPS = %r
EXPS = %r  # 0-d tensor exponents (pow-tensor-exponent cases) or None
rng = np.random.RandomState(4)
X, Y, O, G = rng.rand(2, 3) + 0.6, rng.rand(3) + 0.6, rng.rand(2, 3), None
M = np.array([[True, False, True], [False, True, True]])
res = []
for sp, ev in [(sp, ev) for ev in (EXPS or [None]) for sp in SPS]:
    x, y = mg.Tensor(X), mg.Tensor(Y)
    if ev is not None: y = mg.Tensor(np.array(ev))
    env = {"mg": mg, "np": np, "x": x, "y": y, "M": M, "O_t": lambda: mg.Tensor(O.copy())}
    s = sp.format(a="x", b="y")
    try:
        if "r =" in s or "; " in s:
            exec(s, env); r = env["r"]
        else:
            r = eval(s, env)
        if not isinstance(r, mg.Tensor): res.append((sp, "not-a-tensor")); continue
        g = np.random.RandomState(9).rand(*r.shape) + 0.5
        d = r.data.copy(); c = r.constant
        r.backward(g)
        res.append((sp, "ok", d, c, None if x.grad is None else x.grad.copy(), None if y.grad is None else y.grad.copy(), r.dtype, ev))
    except Exception as e:
        res.append((sp, "raise", type(e).__name__, str(e)[:150], None, None, None, ev))
bad = []
fams = {}
for r in res: fams.setdefault(("where" in r[0], "1.5" in r[0], "2.0" in r[0] and "**" in r[0], r[7]), []).append(r)
for fam in fams.values():
    ref = next((r for r in fam if r[1] == "ok"), None)
    for r in fam:
        if r[1] != "ok":
            if ref is not None or r[1] == "not-a-tensor": bad.append(r[:4])
            continue
        if r is ref: continue
        if r[2].shape != ref[2].shape or not np.allclose(r[2], ref[2], equal_nan=True) or r[3] != ref[3] or r[6] != ref[6]: bad.append((r[0], ref[0], "value/constant/dtype"))
        for a, b in ((r[4], ref[4]), (r[5], ref[5])):
            if (a is None) != (b is None) or (a is not None and not np.allclose(a, b, equal_nan=True)): bad.append((r[0], ref[0], "gradient"))
print(bad)
print('REPRODUCED' if bad else 'NOT-REPRODUCED'); sys.exit(1 if bad else 0)
''' % (sps, exps)
    path = common.write_replay(PROP, gradcase._safe(spec["name"]), src)
    ok, out = common.run_replay(path)
    return path if ok else None


def run_nodiff(spec, tier, mg):
    """non-differentiable NumPy functions / boolean ufuncs applied to tensors return plain arrays (concrete observation)"""
    import mygrad.tensor_base as tb

    res = common.new_result()
    findings = []
    x = mg.tensor([[1.0, -2.0, 3.0], [0.5, 0.0, -1.5]])
    y = mg.tensor([1.0, 2.0, 3.0])
    n = 0
    for uf in tb._REGISTERED_BOOL_ONLY_UFUNC:
        if uf.__name__ == "isnat":
            continue
        n += 1
        try:
            r = uf(x) if uf.nin == 1 else uf(x, y)
        except Exception as e:
            findings.append("np.%s on tensors raised %s" % (uf.__name__, type(e).__name__))
            continue
        if isinstance(r, mg.Tensor) or not isinstance(r, (np.ndarray, np.generic, bool)):
            findings.append("np.%s on tensors returned %s" % (uf.__name__, type(r).__name__))
        else:
            w = uf(x.data) if uf.nin == 1 else uf(x.data, y.data)
            if not np.array_equal(r, w):
                findings.append("np.%s on tensors differs from arrays" % uf.__name__)
        mgf = getattr(mg, uf.__name__, None)
        if mgf is not None:
            r2 = mgf(x) if uf.nin == 1 else mgf(x, y)
            if isinstance(r2, mg.Tensor) or not np.array_equal(r2, r):
                findings.append("mg.%s differs from np.%s on tensors" % (uf.__name__, uf.__name__))
    calls = {"allclose": lambda f: f(x, x), "bincount": lambda f: f(mg.tensor([0, 1, 1, 3])), "can_cast": lambda f: f(x, np.float32), "isclose": lambda f: f(x, x),
             "may_share_memory": lambda f: f(x, x), "min_scalar_type": lambda f: f(mg.tensor(3)), "result_type": lambda f: f(x, np.float32),
             "shape": lambda f: f(x), "shares_memory": lambda f: f(x, x)}
    for f in tb._REGISTERED_NO_DIFF_NUMPY_FUNCS:
        if f.__name__ not in calls:
            continue
        n += 1
        try:
            r = calls[f.__name__](f)
        except Exception as e:
            findings.append("np.%s on tensors raised %s: %s" % (f.__name__, type(e).__name__, e))
            continue
        if isinstance(r, mg.Tensor):
            findings.append("np.%s on tensors returned a Tensor" % f.__name__)
    # comparison operators of Tensor return arrays
    for op, fn in (("<", lambda: x < y), ("<=", lambda: x <= y), (">", lambda: x > 0), (">=", lambda: x >= y), ("==", lambda: x == y), ("!=", lambda: x != 0.0)):
        n += 1
        r = fn()
        if isinstance(r, mg.Tensor) or not isinstance(r, np.ndarray) or r.dtype != bool:
            findings.append("tensor %s ... returned %s" % (op, type(r).__name__))
    if x._ops or y._ops:
        findings.append("a non-differentiable function recorded a consumer on its input")
    lib.reset_state()
    res["paths"] = n
    if findings:
        res["status"] = common.VIOLATION
        res["violations"].append({"signature": "nodiff:%s" % findings[0][:40], "replay": None, "summary": "; ".join(findings[:4])})
    res["sample"] = {"checked": n}
    return res


def run_constonly(spec, tier, mg):
    import mygrad.tensor_base as tb

    res = common.new_result()
    findings = []
    n = 0
    for uf in tb._REGISTERED_CONST_ONLY_UFUNC:
        n += 1
        args_nc = (mg.tensor([1.5, -2.5]),) if uf.nin == 1 else (mg.tensor([1.5, -2.5]), mg.tensor([2.0, 2.0]))
        args_c = tuple(mg.tensor(a.data, constant=True) for a in args_nc)
        try:
            uf(*args_nc)
            findings.append("np.%s accepted a non-constant tensor" % uf.__name__)
        except ValueError:
            pass
        except Exception as e:
            findings.append("np.%s on a non-constant tensor raised %s, not ValueError" % (uf.__name__, type(e).__name__))
        try:
            r = uf(*args_c)
            w = uf(*[a.data for a in args_c])
            rr = r if isinstance(r, tuple) else (r,)
            ww = w if isinstance(w, tuple) else (w,)
            for a, b in zip(rr, ww):
                a = a.data if isinstance(a, mg.Tensor) else a
                if not np.array_equal(a, b):
                    findings.append("np.%s on constant tensors differs from arrays" % uf.__name__)
        except Exception as e:
            findings.append("np.%s on constant tensors raised %s" % (uf.__name__, type(e).__name__))
        # mixed: one non-constant among the operands still refuses
        if uf.nin == 2:
            try:
                uf(args_c[0], args_nc[1])
                findings.append("np.%s accepted a non-constant second operand" % uf.__name__)
            except ValueError:
                pass
            except Exception as e:
                findings.append("np.%s mixed raised %s" % (uf.__name__, type(e).__name__))
    lib.reset_state()
    res["paths"] = n
    if findings:
        res["status"] = common.VIOLATION
        res["violations"].append({"signature": "const-only:%s" % findings[0][:40], "replay": None, "summary": "; ".join(findings[:4])})
    res["sample"] = {"const_only_ufuncs": n}
    return res


POW_SPELLINGS = ["mg.power({a}, {b})", "np.power({a}, {b})", "{a} ** {b}", "{b}.__rpow__({a})", "r_ = +{a}; r_ **= {b}; r = r_",
                 "r_ = +{a}; mg.power({a}, {b}, out=r_); r = r_"]


def run_case(spec, tier):
    mg = common._WORKER["mg"]
    if spec["kind"] == "powexp":
        return run_spellings(spec, tier, mg)
    if spec["kind"] in ("ufunc", "spell"):
        return run_spellings(spec, tier, mg)
    if spec["kind"] == "nodiff":
        return run_nodiff(spec, tier, mg)
    if spec["kind"] == "lane":
        return run_lane(spec, tier, mg)
    return run_constonly(spec, tier, mg)


def main(argv=None):
    args = common.parse_args(argv)
    cs = cases(args.tier)
    if args.only:
        cs = [c for c in cs if args.only in c["name"]]

    def extra(results):
        lib.ensure_path()
        import mygrad.tensor_base as tb

        covered = set(METHODS) | {"amax", "amin"}
        miss = sorted(f.__name__ for f in tb._REGISTERED_DIFFERENTIABLE_NUMPY_FUNCS if f.__name__ not in covered and not any(("np.%s(" % f.__name__) in s for v in METHODS.values() for s in v))
        return {"spellings_compared": sum(r.get("spellings", 0) for r in results if r), "registered_overrides_without_template": miss}

    describe = dict(
        level="other",
        rule="one case per entry of the ufunc registry (read at run time: %s) with its function / np-on-tensor / out= / where= / scalar / operator / "
             "reflected / augmented spellings, one per listed NumPy override with function, np-on-tensor and method spellings; plus the "
             "non-differentiable registry and the const-only (rounding/modulo) registry",
        explanation="all spellings of one operation run on the same symbolic operands; shape and constant flag must agree and z3 decides for all real "
                    "inputs and seeds that result terms and the operand gradients after backward(g) agree. Non-differentiable functions must return "
                    "plain arrays and record nothing; const-only ufuncs must raise ValueError on any non-constant operand and match NumPy on constants",
        functions=["mygrad.tensor_base.Tensor.__array_ufunc__", "Tensor.__array_function__", "implements_numpy_override", "mygrad.ufuncs._ufunc_creators.ufunc_creator",
                   "Tensor operator dunders (incl. reflected/augmented)"],
        bounds={"operands": "x (2,3), y (3,)"},
        assumptions=["dtype equality across spellings is checked with floats in the replay and in the dtype lane of C03"],
        outside=["reduce/accumulate/outer ufunc methods"],
    )
    return common.main(PROP, "harness.C11", cs, args.tier, args.seed, describe, extra_evidence=extra, deadline_s=900)


if __name__ == "__main__":
    sys.exit(main())
