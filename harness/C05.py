"""C05 — gradients flow correctly through in-place updates and views (DESIGN §3 C05).

Oracle independent of MyGrad: the NumPy twin executes the same statements on object arrays of the same symbols, so the
final L is a term in the leaf symbols in which overwritten elements simply no longer occur ("the equivalent purely
functional program").  For a tensor that was mutated, fresh cut variables are written IN PLACE into its twin array
right after its last mutation and dL/dcut (substituted back) is the reference for its .grad.
"""
import sys

import numpy as np

from symnp import diff, engine as eng_mod, lib, query, terms as tm, vjp
from symnp.scalars import Sym, symarr, terms_of

from . import common, gradcase, viewprog as vp

PROP = "C05"
LEAVES = ("y0", "yv", "y2")


def with_consumers(lines, quick):
    """insert reads: one optional consumer before the first in-place statement, one after the last statement"""
    first_ip = next(i for i, l in enumerate(lines) if vp.is_inplace(l))
    names_before = ["t"] + [l.split(" = ")[0] for l in lines[:first_ip] if not vp.is_inplace(l)]
    names_end = ["t"] + [l.split(" = ")[0] for l in lines if not vp.is_inplace(l)]
    out = []
    for nb in [None] + names_before:
        for ne in names_end:
            prog = list(lines[:first_ip])
            if nb is not None:
                prog.append("r0 = (%s * q[0]).sum()" % nb)
            prog += lines[first_ip:]
            prog.append("r1 = (%s * %s * q[1]).sum()" % (ne, ne))
            prog.append("L = r1 + r0" if nb is not None else "L = r1 * 1")
            out.append(prog)
    return out


def cases(tier):
    quick = tier == "quick"
    out = []
    for base in ("flat6", "mat23", "mat23F", "mat32F"):
        progs = []
        hs = (1, 2) if quick else (1, 2, 3)
        if base in vp.F_ORDERED and not quick:
            hs = (1, 2)
        for h in hs:
            for p in vp.programs(base, h, quick=(quick or h == 3), require_inplace=True):
                if any(".copy()" in ln for ln in p):
                    # Tensor.copy() is documented to return a tensor DETACHED from the graph (C17): it is not a function of the
                    # functional twin, so programs reading through a copy are outside this grammar
                    continue
                progs += with_consumers(p, quick)
        if base in vp.F_ORDERED:
            # targeted 3-statement family on the non-C-ordered bases: an INTERMEDIATE tensor with non-C-ordered data (its upstream leaf shows
            # what reaches the old contents), a view of it, an in-place statement through that view
            shape = vp.BASES[base]
            for nv in ("v = t * k", "v = +t"):
                for vt in vp.VIEWS_Q:
                    l2 = vt.format(d="w", s="v")
                    if not vp.well_typed([nv, l2], shape, True):
                        continue
                    for ip in vp.INPLACE_Q:
                        if ".shape" in ip:
                            continue
                        l3 = ip.format(t="w", o="v")
                        if vp.well_typed([nv, l2, l3], shape, True):
                            progs += with_consumers([nv, l2, l3], True)[-2:]
            # ... and a two-step view chain of the non-C-ordered base itself (e.g. t.T.reshape(-1): a view only because of the layout)
            for v1 in vp.VIEWS_Q + ["{d} = {s}.reshape(-1)"]:
                for v2 in vp.VIEWS_Q + ["{d} = {s}.reshape(-1)"]:
                    l1, l2 = v1.format(d="v", s="t"), v2.format(d="w", s="v")
                    if not vp.well_typed([l1, l2], shape, True):
                        continue
                    for ip in ("{t}[:1] = c1", "{t}[...] = y0", "{t} *= k", "mg.multiply({o}, y0, out={t}, where=Mt)"):
                        l3 = ip.format(t="w", o="w")
                        if vp.well_typed([l1, l2, l3], shape, True):
                            progs += with_consumers([l1, l2, l3], True)[-1:]
        size = 40
        for i in range(0, len(progs), size):
            out.append({"name": "%s/%d" % (base, i), "base": base, "progs": progs[i:i + size]})
    out += opsweep_cases(tier)
    out += auxsweep_cases(tier, "tensor")
    return out


def opsweep_cases(tier):
    """every C02 operation body with >= 2 tensor operands; AFTER the forward call one operand is updated in place, then backward():
    the other operands must receive the gradients of the forward pass as it was computed (operations hold on to pre-mutation values)"""
    from . import C02

    import re

    out = []
    cs = [c for c in C02.cases(tier) if c.get("kind") != "crosshair" and c.get("leaves")
          and not any(vp.is_inplace(l) for l in c["body"].split("\n")) and not c["name"].endswith("/F")
          and (not c.get("heavy") or c["name"] in (("n/gru/T1",) if tier == "quick" else ("n/gru/T1", "n/gru/T2")))]
    specs = []
    for c in cs:
        for ent in c["leaves"]:
            nm = ent[0]
            if len(c["leaves"]) >= 2:
                # the operand itself is updated: it leaves the graph of `out`, the OTHER operands are checked
                specs.append(dict(c, name="%s|then %s *= 2.0" % (c["name"], nm), body=c["body"] + "\n%s *= 2.0" % nm, skip_leaves=[nm]))
            if not c.get("heavy") and not re.search(r"\b%s\s*=" % nm, c["body"]):
                # the operation consumes an intermediate tensor `+leaf`, which is updated afterwards: every leaf is checked
                body = "%s_ = +%s\n" % (nm, nm) + re.sub(r"\b%s\b" % nm, nm + "_", c["body"]) + "\n%s_ *= 2.0" % nm
                specs.append(dict(c, name="%s|via +%s, then updated" % (c["name"], nm), body=body))
    for i in range(0, len(specs), 12):
        out.append({"name": "opsweep/%d" % i, "opsweep": specs[i:i + 12]})
    return out


def auxsweep_cases(tier, mode, prefix="auxsweep"):
    """every C02 operation body that takes an auxiliary array (index array, where= mask, where condition, label array; defined in the
    case's setup): AFTER the forward call the auxiliary input is changed, then backward(); the gradients must be those of the forward pass
    as it was computed.  mode "tensor" (C05): the auxiliary input is passed as a Tensor and updated through MyGrad's own in-place
    assignment.  mode "raw" (C08): the caller's ndarray is written to directly; the guard may refuse the write (ValueError: read-only),
    otherwise the write must not reach the gradients."""
    import re
    from . import C02

    specs = []
    for c in C02.cases(tier):
        if c.get("kind") == "crosshair" or c.get("heavy") or c["name"].endswith("/F") or not c.get("setup") or not c.get("leaves"):
            continue
        if any(vp.is_inplace(l) for l in c["body"].split("\n")) and mode == "tensor" and "[" not in c["body"]:
            continue
        for nm in re.findall(r"^(\w+) = np\.array\(", c["setup"], flags=re.M):
            if not re.search(r"\b%s\b" % nm, c["body"]) or re.search(r"^%s = np\.array\((True|False|[-\d.]+)[,)]" % nm, c["setup"], flags=re.M):
                continue  # (0-d auxiliary arrays: there is no other arrangement of their single element)
            if mode == "tensor":
                kinds = {}
                exec(c["setup"], {"np": np}, kinds)
                if kinds[nm].dtype.kind not in "biu":
                    continue  # a float array in tensor form is an operand of the operation, not an auxiliary input
                setup = c["setup"] + "\n%s_t = mg.Tensor(%s)" % (nm, nm)
                body = re.sub(r"\b%s\b" % nm, nm + "_t", c["body"]) + "\n%s_t[...] = np.roll(%s_t.data.reshape(-1), 1).reshape(%s_t.shape)" % (nm, nm, nm)
                specs.append(dict(c, name="%s|%s as a Tensor, then assigned to" % (c["name"], nm), setup=setup, body=body))
            else:
                body = c["body"] + "\ntry:\n    %s[...] = np.roll(%s.reshape(-1), 1).reshape(%s.shape)\nexcept ValueError:\n    pass" % (nm, nm, nm)
                specs.append(dict(c, name="%s|then %s written to by the caller" % (c["name"], nm), body=body))
    out = []
    for i in range(0, len(specs), 12):
        out.append({"name": "%s/%d" % (prefix, i), "opsweep": specs[i:i + 12]})
    return out


def run_opsweep(spec, tier, mg, PROP=PROP):
    res = common.new_result()
    for gs in spec["opsweep"]:
        heavy = gs.get("heavy")  # recurrent layer: the first few paths only (every path goes through the same backward code)
        r = gradcase.run(gs, tier, PROP, mg, max_paths=3 if heavy else 200, max_seconds=40 if heavy else 60, timeout_ms=8000, skip_ties=True)
        for key in ("paths", "boundary_paths", "exc_paths", "unsat", "sat", "unknown"):
            res[key] += r[key]
        res["violations"] += r["violations"]
        if r["status"] == common.VIOLATION:
            res["status"] = common.VIOLATION
        elif r["status"] == common.INCONCLUSIVE and res["status"] == common.OK:
            res["status"] = common.INCONCLUSIVE
            res["notes"] += r["notes"][-2:]
    res["sample"] = {"case": spec["opsweep"][0]["name"], "body": spec["opsweep"][0]["body"]}
    return res


def descendants(lines, root):
    """names that are (nested) views taken from `root`, per the program text, plus root itself"""
    out = {root}
    for ln in lines:
        if vp.is_inplace(ln) or " = " not in ln:
            continue
        d, rhs = ln.split(" = ", 1)
        if rhs.endswith("* k") or rhs.startswith("+") or rhs.endswith(".copy()") or d.startswith("r") or d == "L":
            continue
        src = rhs.replace("mg.swapaxes(", "").split("[")[0].split(".")[0].split(",")[0].strip()
        if src in out:
            out.add(d.strip())
    return out


def _scalar(a):
    ts = terms_of(a)
    return diff.weighted_sum(ts, [tm.const(1)] * len(ts))


def graph_only(line):
    """statements that act on the graph only (the NumPy twin has nothing to do)"""
    return any(x in line for x in (".backward(", ".clear_graph(", ".null_grad(", "rawwrite("))


def _uids(a):
    return tuple(t.uid for t in terms_of(a))


def twin_run(S, lines, cut=None):
    """cut = (name, after_index, cut_array); returns env, value-before-cut terms"""
    A = S.env_np()
    before = None
    if cut is not None and cut[1] < 0:
        before = terms_of(A[cut[0]])
        A[cut[0]][...] = cut[2].reshape(A[cut[0]].shape)
    hist = []
    fam = []
    names = getattr(S, "ALL_NAMES", vp.TENSOR_NAMES + LEAVES)
    for i, ln in enumerate(lines):
        shape_before = {n: A[n].shape for n in names if n in A and isinstance(A[n], np.ndarray)}
        if not graph_only(ln):
            vp.run_line(ln, A, twin=True)
        f = {}
        if ".shape =" in ln:
            # a view's gradient is by definition the view of its base's gradient (C06), so versions are per memory
            # owner: assigning .shape to an OWNER re-creates it and its views (new version of the family); assigning
            # .shape to a view changes no version
            tg = A[vp._target_name(ln)]
            # owner = no OTHER named array owns its memory (a copying reshape returns a view of an anonymous temporary: an owner too)
            tname = vp._target_name(ln)
            born = lambda m: next((j for j, h in enumerate(hist) if m in h), len(hist))  # init names are in hist[0] or earlier
            init_names = getattr(S, "INIT_NAMES", ("t",) + LEAVES)
            named_owner = any(np.shares_memory(A[m], tg) and (m in init_names or born(m) < born(tname)) for m in names
                              if m in A and isinstance(A[m], np.ndarray) and m != tname and tname not in init_names)
            if not named_owner and shape_before.get(vp._target_name(ln)) != tg.shape:  # assigning the same shape is a no-op
                for n in names:
                    if n in A and isinstance(A[n], np.ndarray):
                        f[n] = bool(np.shares_memory(tg, A[n]))
        elif vp.is_inplace(ln):
            tg = A[vp._target_name(ln)]
            for n in names:
                if n in A and isinstance(A[n], np.ndarray):
                    f[n] = bool(np.shares_memory(tg, A[n]))
                    if tg.size == 0 and vp.ultimate(A[n]) is vp.ultimate(tg):
                        # an update through an EMPTY view overwrites nothing, but it is an in-place statement on the view family:
                        # the library gives the family a new version (np.shares_memory is False for empty arrays)
                        f[n] = True
        fam.append(f)
        if cut is not None and cut[1] == i:
            before = terms_of(A[cut[0]])
            A[cut[0]][...] = cut[2].reshape(A[cut[0]].shape)
        hist.append({n: _uids(A[n]) for n in names if n in A and isinstance(A[n], np.ndarray)})
    A["__fam__"] = fam
    return A, hist, before


def last_change(hist, name):
    idx = None
    prev = None
    for i, h in enumerate(hist):
        if name not in h:
            continue
        if prev is None or h[name] != prev:
            idx = i if prev is not None or name not in ("t",) + LEAVES else (i if h[name] != prev and prev is not None else idx)
        prev = h[name]
    return idx


def run_program(mg, base, lines, res, make_setup=None, invalid_backprop_ok=False, check_names=None):
    engine = eng_mod.Engine(skip_ties=True)
    engine.reset_fn = lib.reset_state
    if make_setup is None:
        shape = vp.BASES[base]
        make_setup = lambda: vp.Setup(shape, mg, f_ordered=base in vp.F_ORDERED)

    def body():
        S = make_setup()
        names = getattr(S, "ALL_NAMES", vp.TENSOR_NAMES + LEAVES)
        T = S.env_mg()
        Lterm = None
        for ln in lines:
            try:
                vp.run_line(ln, T)
            except mg.errors.InvalidBackprop:
                raise
            except Exception as e:  # noqa
                if invalid_backprop_ok:
                    # C09 mode: a statement of the history itself failed loudly; the property only constrains L.backward()
                    return S, ("history-raised", type(e).__name__, ln), Lterm
                raise
            if ln.startswith("L = "):
                Lt = terms_of(T["L"].data)  # recorded when L is created
                Lterm = diff.weighted_sum(Lt, [tm.const(1)] * len(Lt))
        L = T["L"]
        try:
            L.backward()
        except mg.errors.InvalidBackprop:
            if invalid_backprop_ok:
                return S, None, Lterm
            raise
        grads = {}
        for n in (check_names or names):
            if n in T and isinstance(T[n], mg.Tensor):
                grads[n] = (T[n].grad, T[n].shape, T[n].constant)
        data = {n: _uids(T[n].data) for n in names if n in T and isinstance(T[n], mg.Tensor) and T[n].data.dtype == object}
        return S, grads, Lterm, data

    for p in engine.explore(body, max_paths=50, max_seconds=60):
        res["paths"] += 1
        if p.exc is not None:
            return ("exc", "%s: %s" % (type(p.exc).__name__, p.exc))
        S, grads, Lterm = p.out[:3]
        data = p.out[3] if len(p.out) > 3 else {}
        if grads is None:
            res["invalid_backprop"] = res.get("invalid_backprop", 0) + 1
            continue
        if isinstance(grads, tuple) and grads and grads[0] == "history-raised":
            res["history_statement_raised"] = res.get("history_statement_raised", 0) + 1
            res.setdefault("history_statement_raised_examples", [])
            if len(res["history_statement_raised_examples"]) < 3:
                res["history_statement_raised_examples"].append("%s in `%s` of `%s`" % (grads[1], grads[2], "; ".join(lines)))
            continue
        A, hist, _ = twin_run(S, lines)
        if invalid_backprop_ok and hist:
            # C09 histories contain backward()/clear_graph() BETWEEN the creation of a view and an in-place update through it. The
            # memory-sharing guarantee (C04) is stated for one graph epoch; across epochs MyGrad updates such a view on its own. When
            # a tensor still holds an EARLIER version of its twin's values, the twin's version rule does not describe what the tensors
            # hold: no claim for this history (a tensor holding values the twin never had is not excused)
            init0 = {n: _uids(S.env_np()[n]) for n in getattr(S, "INIT_NAMES", ())}
            # (only tensors whose gradients are claimed: a stale view that L does not depend on excuses nothing)
            stale = [n for n, u in data.items() if n in grads and n in hist[-1] and u != hist[-1][n] and (u == init0.get(n) or any(u == h.get(n) for h in hist[:-1]))]
            if stale:
                res["cross_epoch_update_not_shared_no_claim"] = res.get("cross_epoch_update_not_shared_no_claim", 0) + 1
                continue
        Ltwin = _scalar(A["L"])
        conds = list(p.pc) + list(p.dom)
        # forward value of L agrees with the twin
        prob = query.Problem(conds)
        r = prob.differ(Lterm, Ltwin, 10000)
        res[r.verdict] += 1
        if r.verdict == "sat":
            return ("value", "L differs from the NumPy twin")
        init = {n: _uids(S.env_np()[n]) for n in getattr(S, "INIT_NAMES", ("t",) + LEAVES)}
        fam = A["__fam__"]
        view_of, owner_ref = {}, {}
        for n, (g, shp, const) in grads.items():
            if const:
                if g is not None:
                    return ("grad", "constant tensor %s has a gradient" % n)
                continue
            # version rule (family level, as C06 requires v.grad to be a view of the base's gradient): a tensor is
            # "mutated" by every in-place statement whose target shares memory with it; its current value is
            # the one after the last such statement (or after its creation)
            # a view's gradient is by definition the view of its owner's gradient (C06): compare it with the owner's
            # reference gradient gathered at the memory positions the view addresses
            if n not in init and vp.ultimate(A[n]) is not A[n]:
                # owner = the earliest-created named tensor whose memory covers every cell the view addresses
                order = [m for m in hist[-1] if m in grads and m != n and not grads[m][2]]
                order.sort(key=lambda m: -1 if m in init else next(i for i, h in enumerate(hist) if m in h))
                created_n = next(i for i, h in enumerate(hist) if n in h)
                ow = [m for m in order if (m in init or next(i for i, h in enumerate(hist) if m in h) < created_n)
                      and np.shares_memory(A[m], A[n]) and _positions(A[n], A[m]) is not None]
                if ow:
                    view_of[n] = ow[0]
                    continue
            idx = -1
            for i, h in enumerate(hist):
                if n in h and idx < 0 and n not in init:
                    idx = i  # creation
                if n in h and vp.is_inplace(lines[i]) and fam[i].get(n):
                    idx = i
            cutarr = symarr("cut_" + n, shp)
            A2, _, before = twin_run(S, lines, cut=(n, idx, cutarr))
            Lcut = _scalar(A2["L"])
            subst = {}
            for cv, val in zip(terms_of(cutarr), before):
                subst[cv.uid] = val
            if g is not None and tuple(np.shape(g)) != tuple(cutarr.shape):
                return ("grad", "%s.grad has shape %s, tensor has %s" % (n, np.shape(g), cutarr.shape))
            refs, ddom = diff.grad(Lcut, terms_of(cutarr))
            owner_ref[n] = (tm.substitute(refs, subst), tm.substitute(ddom, subst), tuple(cutarr.shape))
            rr = vjp.check_grads(p, Lcut, [(n, cutarr, g)], timeout_ms=10000, subst=subst)
            res["unsat"] += rr["unsat"]
            res["sat"] += rr["sat"]
            res["unknown"] += rr["unknown"]
            if rr["unknown"]:
                return ("unknown", "solver unknown for %s.grad" % n)
            if rr["cex"] is not None:
                return ("grad", "%s.grad differs from the derivative of the functional twin w.r.t. %s's %s value"
                        % (n, n, "current (post-mutation)" if idx >= 0 else "initial"))
        for n, o in view_of.items():
            g, shp, const = grads[n]
            if o not in owner_ref:
                continue
            refs, ddom, oshape = owner_ref[o]
            if g is None:
                g = np.zeros(shp, dtype=object)
            if tuple(np.shape(g)) != tuple(A[n].shape):
                return ("grad", "%s.grad has shape %s, tensor has %s" % (n, np.shape(g), A[n].shape))
            pos = _positions(A[n], A[o])
            if pos is None:
                continue
            prob = query.Problem(conds + list(ddom))
            r = prob.differ_any(list(zip(terms_of(g), [refs[k] for k in pos])), 10000)
            res[r.verdict] += 1
            if r.verdict == "sat":
                return ("grad", "%s.grad differs from the view of the reference gradient of its base %s" % (n, o))
            if r.verdict == "unknown":
                return ("unknown", "solver unknown for view %s" % n)
    return None


def _positions(view, owner):
    """for every element of `view` (logical order) the flat logical index of the same memory cell in `owner`"""
    def addrs(a):
        p0 = a.__array_interface__["data"][0]
        out = []
        for idx in np.ndindex(*a.shape):
            out.append(p0 + sum(i * s for i, s in zip(idx, a.strides)))
        return out

    oa = {ad: k for k, ad in enumerate(addrs(owner))}
    try:
        return [oa[ad] for ad in addrs(view)]
    except KeyError:
        return None


def replay_source(base, lines):
    """numeric central differences on the NumPy twin (float64) vs MyGrad's gradients"""
    shape = vp.BASES[base]
    return '''import sys
import numpy as np
import mygrad as mg
def mask_for(shape):
    n = int(np.prod(shape)) if shape else 1
    return np.array([(i %% 3) != 1 for i in range(n)], dtype=bool).reshape(shape)
def tgt(line):
    if "out=" in line: return line.split("out=")[1].split(",")[0].split(")")[0].strip()
    h = line.split("=")[0].strip()
    for s in ("[", ".", " "): h = h.split(s)[0]
    return h
rng = np.random.RandomState(1)
INIT = {"t": ((rng.rand(*%r[::-1]) + 0.5).T if %r else rng.rand(*%r) + 0.5), "y0": np.array(1.25), "yv": rng.rand(%d) + 0.5, "y2": rng.rand(2) + 0.5}
CONST = {"k": np.array(0.75), "c1": np.array(2.5), "c2": np.array(1.5), "q": [np.array(1.5), np.array(2.5), np.array(3.5)]}
LINES = %r
DESC = %r
NAMES = ("t", "v", "w", "u")
def twin(init, cut=None):
    A = {"np": np}; A.update({k: v.copy(order="K") for k, v in init.items()}); A.update(CONST)
    hist = []
    if cut is not None and cut[1] < 0: A[cut[0]][...] = cut[2].reshape(A[cut[0]].shape)
    for i, ln in enumerate(LINES):
        if "Mt" in ln or "Mb" in ln: A["Mt"] = mask_for(A[tgt(ln)].shape); A["Mb"] = mask_for(A[tgt(ln)].shape[-1:])
        sb = {n: A[n].shape for n in NAMES if n in A and isinstance(A[n], np.ndarray)}
        exec(ln.replace("mg.", "np."), A)
        for n in NAMES:
            if n in A and not isinstance(A[n], np.ndarray): A[n] = np.array(A[n])
        if cut is not None and cut[1] == i: A[cut[0]][...] = cut[2].reshape(A[cut[0]].shape)
        ip = ("[" in ln.split("=")[0]) or any(o in ln for o in (" *= ", " += ", " -= ", " /= ", " **= ")) or "out=" in ln
        def ult(a):
            while a.base is not None: a = a.base
            return a
        f = {n: bool(ip and (np.shares_memory(A[tgt(ln)], A[n]) or (A[tgt(ln)].size == 0 and ult(A[n]) is ult(A[tgt(ln)])))) for n in NAMES + ("y0", "yv", "y2") if n in A and isinstance(A[n], np.ndarray)}
        if ".shape =" in ln:
            tg_ = A[tgt(ln)]; ub = tg_
            while ub.base is not None: ub = ub.base
            born = lambda m: next((j for j, (h, _) in enumerate(hist) if m in h), len(hist))
            named_owner = any(np.shares_memory(A[m], tg_) and (m in INIT or born(m) < born(tgt(ln))) for m in f if m != tgt(ln) and tgt(ln) not in INIT)
            f = {n: bool((not named_owner) and sb.get(tgt(ln)) != tg_.shape and np.shares_memory(tg_, A[n])) for n in f}
        hist.append(({n: A[n].copy() for n in NAMES + ("y0", "yv", "y2") if n in A and isinstance(A[n], np.ndarray)}, f))
    return A, hist
T = {"mg": mg, "np": np}; T.update({k: mg.Tensor(v) for k, v in INIT.items()}); T.update(CONST)
bad = []
try:
    for ln in LINES:
        if "Mt" in ln or "Mb" in ln: T["Mt"] = mask_for(T[tgt(ln)].shape); T["Mb"] = mask_for(T[tgt(ln)].shape[-1:])
        exec(ln, T)
    T["L"].backward()
except Exception as e:
    bad.append(("raised", type(e).__name__, str(e)[:300]))
if not bad:
    A, hist = twin(INIT)
    if abs(float(A["L"]) - float(T["L"].data)) > 1e-9 * max(1, abs(float(A["L"]))): bad.append(("L", float(A["L"]), float(T["L"].data)))
    def positions(view, owner):
        def addrs(a):
            p0 = a.__array_interface__["data"][0]
            return [p0 + sum(i * s for i, s in zip(idx, a.strides)) for idx in np.ndindex(*a.shape)]
        oa = {ad: k for k, ad in enumerate(addrs(owner))}
        try: return [oa[ad] for ad in addrs(view)]
        except KeyError: return None
    created = {}
    for i, (h, f) in enumerate(hist):
        for n in h: created.setdefault(n, i)
    owner_num = {}
    views = {}
    for n in NAMES + ("y0", "yv", "y2"):
        if n not in T or not isinstance(T[n], mg.Tensor) or T[n].constant: continue
        if n not in INIT:
            ow = [m for m in sorted([m for m in NAMES if m in A and m != n and m in T and isinstance(T[m], mg.Tensor) and not T[m].constant],
                                    key=lambda m: -1 if m in INIT else created.get(m, 99))
                  if (m in INIT or created.get(m, 99) < created.get(n, 0)) and isinstance(A[m], np.ndarray) and np.shares_memory(A[m], A[n]) and positions(A[n], A[m]) is not None]
            if ow:
                views[n] = ow[0]; continue
        idx = -1
        for i, (h, f) in enumerate(hist):
            if n in h and idx < 0 and n not in INIT: idx = i
            if n in h and f.get(n): idx = i
        val = (hist[idx][0][n] if idx >= 0 else INIT[n]).astype(float)
        num = np.zeros(val.size)
        for j in range(val.size):
            e = np.zeros(val.size); e[j] = 1e-6
            Lp = float(twin(INIT, (n, idx, (val.reshape(-1) + e).reshape(val.shape)))[0]["L"])
            Lm = float(twin(INIT, (n, idx, (val.reshape(-1) - e).reshape(val.shape)))[0]["L"])
            num[j] = (Lp - Lm) / 2e-6
        owner_num[n] = num
        g = T[n].grad
        got = np.zeros(val.size) if g is None else np.asarray(g, dtype=float).reshape(-1)
        if got.shape != num.shape or not np.allclose(got, num, rtol=1e-4, atol=1e-5): bad.append((n, "grad", got.tolist(), "reference", num.tolist()))
    for n, o in views.items():
        if o not in owner_num: continue
        pos = positions(A[n], A[o])
        ref = np.array([owner_num[o][k] for k in pos])
        g = T[n].grad
        got = np.zeros(ref.size) if g is None else np.asarray(g, dtype=float).reshape(-1)
        if got.shape != ref.shape or not np.allclose(got, ref, rtol=1e-4, atol=1e-5): bad.append((n, "view grad", got.tolist(), "view of the base's reference", ref.tolist()))
print(bad)
print('REPRODUCED' if bad else 'NOT-REPRODUCED'); sys.exit(1 if bad else 0)
''' % (tuple(shape), base in vp.F_ORDERED, tuple(shape), shape[-1], list(lines),
       {i: sorted(descendants(lines[:i], vp._target_name(ln))) for i, ln in enumerate(lines) if ".shape =" in ln})


def run_case(spec, tier):
    mg = common._WORKER["mg"]
    if "opsweep" in spec:
        return run_opsweep(spec, tier, mg)
    res = common.new_result()
    res["programs"] = 0
    for k, lines in enumerate(spec["progs"]):
        res["programs"] += 1
        try:
            r = run_program(mg, spec["base"], lines, res)
        except eng_mod.Budget as e:
            r = ("unknown", str(e))
        if r is None:
            continue
        kind, msg = r
        if kind == "unknown":
            res["status"] = common.INCONCLUSIVE
            res["notes"].append("%s: %s" % ("; ".join(lines), msg))
            continue
        path = common.write_replay(PROP, gradcase._safe("%s_%d" % (spec["name"], k)), replay_source(spec["base"], lines))
        ok, out = common.run_replay(path)
        if ok:
            res["status"] = common.VIOLATION
            res["violations"].append({"signature": "%s:%s" % (kind, "raised" if kind == "exc" else msg[:40]), "replay": path,
                                      "summary": "program `%s` (base %s): %s" % ("; ".join(lines), spec["base"], msg)})
        else:
            res["status"] = common.INCONCLUSIVE
            res["notes"].append("did not reproduce: `%s`: %s :: %s" % ("; ".join(lines), msg, (out or "")[-300:]))
    res["sample"] = {"base_shape": list(vp.BASES[spec["base"]]), "program": spec["progs"][0]}
    return res


def main(argv=None):
    args = common.parse_args(argv)
    cs = cases(args.tier)
    if args.only:
        cs = [c for c in cs if args.only in c["name"]]

    def extra(results):
        return {"programs": sum(r.get("programs", 0) for r in results if r)}

    describe = dict(
        level="other",
        rule="every C04-grammar program of <= 2 (thorough 3) statements with >= 1 in-place statement, extended by a read (consumer) "
             "of every live name before the first mutation (or none) and of every live name at the end, L = sum of consumers, backward()",
        explanation="z3 decides, for all real inputs, that every live tensor's .grad (leaves feeding assignments, views, mutated bases, "
                    "intermediates) equals the derivative of the NumPy twin's L: w.r.t. the leaf symbols for untouched tensors, w.r.t. cut "
                    "variables injected in place right after the last mutation for mutated ones",
        functions=["mygrad._tensor_core_ops.indexing.SetItem.backward_var", "mygrad._utils.duplicating_graph.UnView", "ApplyMask",
                   "reroute_ops_through", "Tensor._in_place_op", "Tensor.backward", "Operation.backward"],
        bounds={"history": "<= 2 statements + <= 2 consumers (quick), <= 3 (thorough)", "bases": "(6,), (2,3)"},
        assumptions=["real arithmetic", "object arrays stand for float64 arrays", "literal scalars are 0-d symbolic constants"],
        outside=["longer histories", "scalar-slot assignment of 0-d values on 1-D targets (object-dtype quirk)"],
        exhaustive=True,
    )
    from symnp import selftest

    return common.main(PROP, "harness.C05", cs, args.tier, args.seed, describe, preflight=selftest.run, extra_evidence=extra,
                       deadline_s=900 if args.tier == "quick" else 3000)


if __name__ == "__main__":
    sys.exit(main())
