"""C15 — no_autodiff / mem_guard_* scoping and value preservation (DESIGN §3 C15).

(a) the real ContextTracker.__enter__/__exit__/__call__ of the three manager objects executed at SYMBOLIC, unbounded
    depth with a z3-array model of `_depth_tracker`: frame + restore obligations (one inductive step);
    cross-check: every well-nested sequence of <= 4 scopes (contexts and decorators, exception at each depth);
    turn_memory_guarding_on/off outside any scope.
(b) programs run inside no_autodiff: values equal the tracked run (z3), nothing recorded, nothing locked, grads untouched,
    in-place updates write into the tensor's own memory, backward() is a no-op.
"""
import itertools
import sys

import numpy as np
import z3

from symnp import engine as eng_mod, lib, query, terms as tm
from symnp.scalars import Sym, SymBool, SymInt, symarr, terms_of

from . import common, gradcase

PROP = "C15"


class SymDict:
    """Int -> Bool map with symbolic keys (z3 arrays for presence and value); reads of a value fork (the
    state setter insists on a real bool)"""

    def __init__(self, name):
        self.pres = z3.Array(name + "_pres", z3.IntSort(), z3.BoolSort())
        self.val = z3.Array(name + "_val", z3.IntSort(), z3.BoolSort())
        self.writes = []

    def __setitem__(self, k, v):
        k = SymInt.lift(k)
        if isinstance(v, SymBool):
            v = tm.to_z3(v.t)
        else:
            v = z3.BoolVal(bool(v))
        self.writes.append(("set", k))
        self.pres = z3.Store(self.pres, k, True)
        self.val = z3.Store(self.val, k, v)

    def pop(self, k, *default):
        k = SymInt.lift(k)
        if not bool(SymBool(z3.Select(self.pres, k))):
            if default:
                return default[0]
            raise KeyError(k)
        v = bool(SymBool(z3.Select(self.val, k)))
        self.writes.append(("pop", k))
        self.pres = z3.Store(self.pres, k, False)
        return v

    def __getitem__(self, k):
        k = SymInt.lift(k)
        if not bool(SymBool(z3.Select(self.pres, k))):
            raise KeyError(k)
        return bool(SymBool(z3.Select(self.val, k)))

    def __delitem__(self, k):
        self.pop(k)

    def __contains__(self, k):
        return bool(SymBool(z3.Select(self.pres, SymInt.lift(k))))


def _managers():
    import mygrad._utils.graph_tracking as gt
    import mygrad._utils.lock_management as lm

    return [("no_autodiff", gt.no_autodiff, gt, "TRACK_GRAPH", False),
            ("mem_guard_off", lm.mem_guard_off, lm, "MEM_GUARD", False),
            ("mem_guard_on", lm.mem_guard_on, lm, "MEM_GUARD", True)]


def _solve(conds):
    s = z3.Solver()
    s.set("timeout", 20000)
    s.add(*conds)
    return str(s.check())


def run_inductive(spec, tier):
    res = common.new_result()
    mgrs = {m[0]: m for m in _managers()}
    name, mgr, mod, attr, enter_val = mgrs[spec["mgr"]]
    engine = eng_mod.Engine()
    engine.reset_fn = lib.reset_state
    obligations = discharged = 0
    mode = spec["mode"]

    def body():
        d0 = z3.Int("d0")
        engine.assume(d0 >= (1 if mode == "exit" else 0))
        mgr._depth = SymInt(d0)
        trk = SymDict("trk")
        mgr._depth_tracker = trk
        pres0, val0 = trk.pres, trk.val
        k = z3.Int("k")
        engine.assume(z3.ForAll([k], z3.Select(pres0, k) == z3.And(k >= 0, k < d0)))  # invariant: keys = [0, depth)
        s0 = bool(SymBool(z3.Bool("state0")))
        setattr(mod, attr, s0)
        out = {"d0": d0, "pres0": pres0, "val0": val0, "s0": s0}
        if mode in ("enter", "pair", "decorator", "decorator-raise"):
            if mode == "enter":
                mgr.__enter__()
            elif mode == "pair":
                mgr.__enter__()
                out["inside"] = getattr(mod, attr)
                out["d_inside"] = mgr._depth
                mgr.__exit__(None, None, None)
            else:
                seen = {}

                def f(a, b=2):
                    seen["inside"] = getattr(mod, attr)
                    seen["d_inside"] = mgr._depth
                    if mode == "decorator-raise":
                        raise KeyError("boom")
                    return a + b

                w = mgr(f)
                try:
                    out["ret"] = w(1, b=4)
                except KeyError:
                    out["raised"] = True
                out.update(seen)
                out["wraps"] = getattr(w, "__name__", None) == "f"
        elif mode == "exit":
            mgr.__exit__(None, None, None)
        out["state"] = getattr(mod, attr)
        out["depth"] = mgr._depth
        out["pres"], out["val"] = trk.pres, trk.val
        return out

    try:
        for p in engine.explore(body, max_paths=200, max_seconds=120, catch=(KeyError, TypeError, AttributeError)):
            res["paths"] += 1
            if p.exc is not None:
                res["status"] = common.VIOLATION
                res["violations"].append({"signature": "ctx:%s:%s:raised" % (name, mode), "replay": None,
                                          "summary": "%s %s raised %s: %s from a state satisfying the invariant" % (name, mode, type(p.exc).__name__, p.exc)})
                continue
            o = p.out
            pc = [tm.to_z3(c) for c in p.pc]
            d0, pres0, val0 = o["d0"], o["pres0"], o["val0"]
            dpost = SymInt.lift(o["depth"])
            k = z3.Int("k")
            obs = []
            st0 = z3.BoolVal(o["s0"])
            if mode == "enter":
                obs += [("depth+1", [dpost != d0 + 1]),
                        ("state:=enter value", [z3.BoolVal(o["state"] is not enter_val)]),
                        ("frame: only key depth written", [z3.Exists([k], z3.And(k != d0, z3.Or(z3.Select(o["pres"], k) != z3.Select(pres0, k), z3.Select(o["val"], k) != z3.Select(val0, k))))]),
                        ("saves entry state", [z3.Or(z3.Not(z3.Select(o["pres"], d0)), z3.Select(o["val"], d0) != st0)]),
                        ("invariant preserved", [z3.Exists([k], z3.Select(o["pres"], k) != z3.And(k >= 0, k < dpost))])]
            elif mode == "exit":
                obs += [("depth-1", [dpost != d0 - 1]),
                        ("state:=saved", [z3.BoolVal(bool(o["state"])) != z3.Select(val0, d0 - 1)]),
                        ("frame: only key depth-1 popped", [z3.Exists([k], z3.And(k != d0 - 1, z3.Or(z3.Select(o["pres"], k) != z3.Select(pres0, k), z3.Select(o["val"], k) != z3.Select(val0, k))))]),
                        ("invariant preserved", [z3.Exists([k], z3.Select(o["pres"], k) != z3.And(k >= 0, k < dpost))])]
            else:
                obs += [("restore: state", [z3.BoolVal(o["state"] is not o["s0"])]),
                        ("restore: depth", [dpost != d0]),
                        ("restore: tracker presence", [z3.Exists([k], z3.Select(o["pres"], k) != z3.Select(pres0, k))]),
                        ("restore: tracker values on live keys", [z3.Exists([k], z3.And(z3.Select(pres0, k), z3.Select(o["val"], k) != z3.Select(val0, k)))]),
                        ("inside: state = enter value", [z3.BoolVal(o.get("inside") is not enter_val)]),
                        ("inside: depth+1", [SymInt.lift(o["d_inside"]) != d0 + 1])]
                if mode == "decorator":
                    obs += [("decorator returns the body's value", [z3.BoolVal(o.get("ret") != 5)]),
                            ("decorator preserves the name", [z3.BoolVal(not o.get("wraps"))])]
                if mode == "decorator-raise":
                    obs += [("exception propagates", [z3.BoolVal(not o.get("raised"))])]
            for nm, neg in obs:
                obligations += 1
                r = _solve(pc + neg)
                res[r] += 1
                if r == "unsat":
                    discharged += 1
                elif r == "sat":
                    res["status"] = common.VIOLATION
                    res["violations"].append({"signature": "ctx:%s:%s:%s" % (name, mode, nm), "replay": _ctx_replay(name, mode, nm),
                                              "summary": "%s %s: obligation '%s' fails from a state satisfying the invariant" % (name, mode, nm)})
                else:
                    res["status"] = common.INCONCLUSIVE
            if _solve(pc) != "sat":
                res["notes"].append("path without witness")
        res["sample"] = {"case": spec["name"], "obligations": "frame/restore at symbolic depth d0 >= 0 with tracker keys = [0, d0)"}
    except eng_mod.Budget as e:
        res["status"] = common.INCONCLUSIVE
        res["notes"].append(str(e))
    finally:
        lib.reset_state()
    res["obligations"] = obligations
    res["discharged"] = discharged
    # replays of step obligations are confirmed through the bounded nesting check (concrete); a step-level sat
    # without a reproducing concrete nesting is downgraded there
    for v in list(res["violations"]):
        if v["replay"] is None:
            res["violations"].remove(v)
            res["status"] = common.INCONCLUSIVE
            res["notes"].append("unconfirmed step counterexample: " + v["summary"])
    return res


def _ctx_replay(name, mode, nm):
    """concrete confirmation: nest the manager at depths 0..3 with both initial states and look for a non-restored setting"""
    src = '''import sys
import mygrad as mg
import mygrad._utils.graph_tracking as gt
import mygrad._utils.lock_management as lm
mgr = {"no_autodiff": mg.no_autodiff, "mem_guard_off": mg.mem_guard_off, "mem_guard_on": mg.mem_guard_on}[%r]
def get():
    return (gt.TRACK_GRAPH, lm.MEM_GUARD)
bad = False
for init in (True, False):
    for depth in range(4):
        gt.TRACK_GRAPH = True; lm.MEM_GUARD = True
        if %r == "no_autodiff": gt.TRACK_GRAPH = init
        else: lm.MEM_GUARD = init
        def nest(d):
            before = get()
            try:
                with mgr:
                    inside = get()
                    if d: nest(d - 1)
                    if get() != inside: return True
                    if %r.endswith("raise"): raise KeyError
            except KeyError:
                pass
            return get() != before
        bad = bad or nest(depth)
        @mgr
        def f(): return get()
        b = get(); f(); bad = bad or get() != b
print('REPRODUCED' if bad else 'NOT-REPRODUCED'); sys.exit(1 if bad else 0)
''' % (name, name, mode)
    path = common.write_replay(PROP, gradcase._safe("ctx_%s_%s" % (name, mode)), src)
    ok, out = common.run_replay(path)
    return path if ok else None


# ------------------------------------------------------------------ bounded nesting cross-check (concrete)
def run_nesting(spec, tier, mg):
    res = common.new_result()
    import mygrad._utils.graph_tracking as gt
    import mygrad._utils.lock_management as lm

    mgrs = _managers()
    maxn = 3 if tier == "quick" else 4
    n_seq = 0

    def settings():
        return (gt.TRACK_GRAPH, lm.MEM_GUARD)

    class Boom(Exception):
        pass

    def run_tree(tree, raise_at, counter, log):
        """tree: nested list of (mgr_index, as_decorator, children)"""
        for (mi, deco, children) in tree:
            name, mgr, mod, attr, enter_val = mgrs[mi]
            before = settings()

            def inner():
                inside = settings()
                if getattr(mod, attr) is not enter_val:
                    log.append("inside %s the setting is not %s" % (name, enter_val))
                counter[0] += 1
                me = counter[0]
                run_tree(children, raise_at, counter, log)
                if settings() != inside:
                    log.append("nested scopes changed the setting seen by %s" % name)
                if me == raise_at:
                    raise Boom()

            try:
                if deco:
                    mgr(inner)()
                else:
                    with mgr:
                        inner()
            finally:
                if settings() != before:
                    log.append("%s did not restore %s -> %s" % (name, before, settings()))

    def trees(n):
        """all ordered forests with n nodes, labels (mgr, deco)"""
        if n == 0:
            yield []
            return
        for k in range(1, n + 1):  # size of first tree
            for sub in trees(k - 1):
                for rest in trees(n - k):
                    for mi in range(3):
                        for deco in (False, True):
                            yield [(mi, deco, sub)] + rest

    for n in range(1, maxn + 1):
        for tree in trees(n):
            for init in itertools.product([True, False], repeat=2):
                for raise_at in range(0, n + 1):
                    lib.reset_state()
                    gt.TRACK_GRAPH, lm.MEM_GUARD = init
                    log = []
                    try:
                        run_tree(tree, raise_at, [0], log)
                    except Boom:
                        pass
                    if settings() != init:
                        log.append("settings after the outermost scope: %s, on entry %s" % (settings(), init))
                    for _, mgr, _, _, _ in mgrs:
                        if getattr(mgr, "_depth", 0) != 0 or len(mgr._depth_tracker) != 0:
                            log.append("depth/tracker not back to empty")
                    n_seq += 1
                    if log:
                        res["status"] = common.VIOLATION
                        res["violations"].append({"signature": "nesting:%s" % log[0][:40], "replay": None,
                                                  "summary": "nesting %s init=%s raise_at=%s: %s" % (tree, init, raise_at, log[0])})
                        lib.reset_state()
                        res["paths"] = n_seq
                        return res
    lib.reset_state()
    # process-wide default
    import mygrad as mgm

    for first in (True, False):
        lm.MEM_GUARD = first
        mgm.turn_memory_guarding_off()
        a = lm.MEM_GUARD
        with mgm.mem_guard_on:
            pass
        b = lm.MEM_GUARD
        mgm.turn_memory_guarding_on()
        c = lm.MEM_GUARD
        with mgm.mem_guard_off:
            pass
        d = lm.MEM_GUARD
        if (a, b, c, d) != (False, False, True, True) or mgm.mem_guard_active() is not True:
            res["status"] = common.VIOLATION
            res["violations"].append({"signature": "turn_memory_guarding", "replay": None,
                                      "summary": "turn_memory_guarding_on/off do not set the process-wide default: %s" % ((a, b, c, d),)})
    lib.reset_state()
    res["paths"] = n_seq
    res["sample"] = {"case": spec["name"], "well_nested_sequences_executed": n_seq, "max_scopes": maxn}
    return res


# ------------------------------------------------------------------ (b) behaviour inside no_autodiff
PROGS = [
    "r = x * y + 2.0",
    "r = mg.sum(mg.exp(x), axis=0)",
    "r = x[1:] * y[:1]",
    "r = mg.matmul(x.reshape(1, 2), z)",
    "r = mg.maximum(x, y)",
    "v = x[::-1]\nr = v + y",
    "x[0] = y[1]\nr = x",
    "x *= y\nr = x",
    "v = x[:1]\nv[...] = 3.0\nr = x",
    "mg.add(x, y, out=x)\nr = x",
    "x += 1.0\nv = x[1:]\nv *= 2.0\nr = x",
    "r = mg.concatenate([x, y])",
    "r = mg.mean(x * x)",
    "r = mg.nnet.activations.relu(x - y)",
    "r = z.T @ z",
    "x.shape = (2, 1)\nr = x",
    "r = mg.einsum('i,i->', x, y)",
    "r = mg.where(M, x, y)",
    # a shape that non-contiguous memory cannot take without a copy: refused with and without tracking, and the view keeps writing through
    "w = z.T\ntry:\n    w.shape = (4,)\n    e = 0.0\nexcept AttributeError:\n    e = 1.0\nw[...] = 3.0\nr = z * 1.0 + e",
    "w = z[:, ::-1]\ntry:\n    w.shape = (4,)\n    e = 0.0\nexcept AttributeError:\n    e = 1.0\nw[0] = y\nr = z * 1.0 + e",
    "w = z[::-1]\nw.shape = (4,)\nw[:2] = y\nr = z + w.reshape(2, 2)" if False else "w = z.reshape(4)\nw.shape = (2, 2)\nw[0] = y\nr = z + w",
]


def run_noautodiff(spec, tier, mg):
    res = common.new_result()
    import mygrad._utils.lock_management as lm

    engine = eng_mod.Engine(skip_ties=True)
    engine.reset_fn = lib.reset_state
    for body_src in spec["progs"]:
        def body():
            out = {}
            for mode in ("tracked", "untracked"):
                ax, ay, az = symarr("x", (2,)), symarr("y", (2,)), symarr("z", (2, 2))
                x, y, z = mg.Tensor(ax), mg.Tensor(ay), mg.Tensor(az)
                # give the inputs a gradient and a consumer first
                pre = (x * y).sum() + z.sum()
                pre.backward()
                g0 = {n: np.array(t.grad, dtype=object, copy=True) for n, t in (("x", x), ("y", y), ("z", z))}
                ops0 = {n: set(t._ops) for n, t in (("x", x), ("y", y), ("z", z))}
                ids = {n: id(t.data) for n, t in (("x", x), ("y", y), ("z", z))}
                env = {"mg": mg, "np": np, "x": x, "y": y, "z": z, "M": np.array([True, False])}
                locks0 = dict(lm._array_counter)
                if mode == "untracked":
                    import contextlib

                    with contextlib.ExitStack() as stack:
                        for mname in spec.get("scope", ["no_autodiff"]):
                            stack.enter_context(getattr(mg, mname))
                        exec(body_src, env)
                        r = env["r"]
                        r_back = None
                        try:
                            r.backward()
                        except Exception as e:  # noqa
                            r_back = e
                else:
                    exec(body_src, env)
                    r = env["r"]
                    r_back = None
                out[mode] = dict(r=r, x=x, y=y, z=z, g0=g0, ops0=ops0, ids=ids, r_back=r_back,
                                 locked=dict(lm._array_counter) != locks0 if mode == "untracked" else False, v=env.get("v"))
            return out

        for p in engine.explore(body, max_paths=100, max_seconds=60):
            res["paths"] += 1
            if p.exc is not None:
                res["status"] = common.INCONCLUSIVE
                res["notes"].append("%s: %s: %s" % (body_src.replace("\n", "; "), type(p.exc).__name__, p.exc))
                continue
            t, u = p.out["tracked"], p.out["untracked"]
            bad = []
            r = u["r"]
            inplace = ("[" in body_src.split("r =")[0] and "=" in body_src) or "*=" in body_src or "+=" in body_src or "out=" in body_src or ".shape =" in body_src
            if r.creator is not None:
                bad.append("result has a creator")
            if r.base is not None:
                bad.append("result has a base")
            if u["v"] is not None and isinstance(u["v"], mg.Tensor) and (u["v"].creator is not None or u["v"].base is not None):
                bad.append("view created inside no_autodiff records creator/base")
            for n in "xyz":
                tn = u[n]
                if set(tn._ops) != u["ops0"][n]:
                    bad.append("%s recorded a consumer" % n)
                if tn.grad is None:
                    bad.append("%s lost its gradient" % n)
                else:
                    pr = query.Problem([])
                    if tn.grad.shape != u["g0"][n].shape or pr.differ_any(list(zip(terms_of(tn.grad), terms_of(u["g0"][n]))), 5000).verdict != "unsat":
                        bad.append("%s's gradient changed" % n)
                    res["unsat"] += 1
                if id(tn.data) != u["ids"][n] and ".shape" not in body_src:
                    bad.append("%s.data is a different array object after the body (in-place must write into own memory)" % n)
                if not tn.data.flags.writeable:
                    bad.append("%s.data is locked" % n)
            if u["locked"]:
                bad.append("lock tables non-empty inside no_autodiff")
            if u["r_back"] is not None:
                bad.append("backward() raised inside no_autodiff: %r" % u["r_back"])
            # values equal the tracked run
            if r.shape != t["r"].shape:
                bad.append("result shape differs from the tracked run")
            else:
                prob = query.Problem(list(p.pc) + list(p.dom))
                rr = prob.differ_any(list(zip(terms_of(r.data), terms_of(t["r"].data))), 10000)
                res[rr.verdict] += 1
                if rr.verdict == "sat":
                    bad.append("values differ from the tracked run")
                elif rr.verdict == "unknown":
                    res["status"] = common.INCONCLUSIVE
                for n in "xyz":
                    r2 = prob.differ_any(list(zip(terms_of(u[n].data), terms_of(t[n].data))), 10000)
                    res[r2.verdict] += 1
                    if r2.verdict == "sat":
                        bad.append("input %s ends with different values than in the tracked run" % n)
            if bad:
                rp = _noauto_replay(body_src, bad[0], spec.get("scope", ["no_autodiff"]))
                if rp:
                    res["status"] = common.VIOLATION
                    res["violations"].append({"signature": "no_autodiff:%s" % bad[0][:50], "replay": rp,
                                              "summary": "inside %s `%s`: %s" % (" > ".join(spec.get("scope", ["no_autodiff"])), body_src.replace("\n", "; "), "; ".join(bad))})
                else:
                    res["status"] = common.INCONCLUSIVE
                    res["notes"].append("did not reproduce: %s :: %s" % (body_src, bad))
    res["sample"] = {"case": spec["name"], "program_inside_no_autodiff": spec["progs"][0]}
    return res


def _noauto_replay(body_src, what, scope=("no_autodiff",)):
    src = '''import sys
import numpy as np
import mygrad as mg
import mygrad._utils.lock_management as lm
def run(tracked):
    x, y, z = mg.tensor([1.5, -2.0]), mg.tensor([0.5, 3.0]), mg.tensor([[1.0, 2.0], [3.0, 4.5]])
    ((x * y).sum() + z.sum()).backward()
    g0 = [t.grad.copy() for t in (x, y, z)]
    ids = [id(t.data) for t in (x, y, z)]
    env = {"mg": mg, "np": np, "x": x, "y": y, "z": z, "M": np.array([True, False])}
    bad = []
    if tracked:
        exec(BODY, env)
    else:
        locks0 = dict(lm._array_counter)
        import contextlib
        with contextlib.ExitStack() as stack:
            for m in SCOPE: stack.enter_context(getattr(mg, m))
            exec(BODY, env)
            r = env["r"]
            r.backward()
            if dict(lm._array_counter) != locks0: bad.append("locked")
        if r.creator is not None or r.base is not None: bad.append("creator/base")
        for t, g, i in zip((x, y, z), g0, ids):
            if t.grad is None or not np.array_equal(t.grad, g): bad.append("grad")
            if t._ops: bad.append("ops")
            if not t.data.flags.writeable: bad.append("flag")
            if id(t.data) != i and ".shape" not in BODY: bad.append("identity")
    return env["r"].data.copy(), [t.data.copy() for t in (x, y, z)], bad
BODY = %r
SCOPE = %r
r1, d1, _ = run(True)
r2, d2, bad = run(False)
if r1.shape != r2.shape or not np.allclose(r1, r2): bad.append("values")
for a, b in zip(d1, d2):
    if a.shape != b.shape or not np.allclose(a, b): bad.append("input values")
print(bad)
print('REPRODUCED' if bad else 'NOT-REPRODUCED'); sys.exit(1 if bad else 0)
''' % (body_src, list(scope))
    path = common.write_replay(PROP, gradcase._safe("noauto_" + "_".join(scope) + body_src[:40]), src)
    ok, out = common.run_replay(path)
    return path if ok else None


# ------------------------------------------------------------------ (c) backward() inside no_autodiff on a graph recorded outside
BACK_GRAPH = "w = x * y\nv = w[:1]\nc = mg.multiply(w, 2.0, constant=True)\nk = mg.sum(c)\nout = (w * w).sum() + v.sum()"
BACK_TARGETS = ["w", "c", "k", "v", "x", "out"]


def _graph_state(mg, lm, T):
    return {n: (id(t.creator), None if t.creator is None else tuple(id(i) for i in t.creator.variables), frozenset(id(o) for o in t._ops), t.grad is None,
                id(t.base), t.data.flags.writeable) for n, t in T.items()}, dict(lm._array_counter)


def run_noauto_backward(spec, tier, mg):
    res = common.new_result()
    import mygrad._utils.lock_management as lm

    engine = eng_mod.Engine(skip_ties=True)
    engine.reset_fn = lib.reset_state
    for target in spec["targets"]:
        def body():
            out = {}
            for mode in ("plain", "interlude"):
                x, y = mg.Tensor(symarr("x", (2,))), mg.Tensor(symarr("y", (2,)))
                env = {"mg": mg, "np": np, "x": x, "y": y}
                exec(BACK_GRAPH, env)
                T = {n: env[n] for n in ("x", "y", "w", "v", "c", "k", "out")}
                st0 = _graph_state(mg, lm, T)
                err = None
                if mode == "interlude":
                    with mg.no_autodiff:
                        try:
                            env[target].backward()
                        except Exception as e:  # noqa
                            err = e
                st1 = _graph_state(mg, lm, T)
                later = None
                try:
                    env["out"].backward()
                except Exception as e:  # noqa
                    later = e
                out[mode] = dict(T=T, st0=st0, st1=st1, err=err, later=later)
            return out

        for p in engine.explore(body, max_paths=50, max_seconds=60):
            res["paths"] += 1
            if p.exc is not None:
                res["status"] = common.INCONCLUSIVE
                res["notes"].append("backward-inside/%s: %s: %s" % (target, type(p.exc).__name__, p.exc))
                continue
            a, b = p.out["plain"], p.out["interlude"]
            bad = []
            if b["err"] is not None:
                bad.append("backward() raised inside no_autodiff: %r" % b["err"])
            if a["later"] is not None:
                res["status"] = common.INCONCLUSIVE
                res["notes"].append("backward-inside/%s: plain run raised %r" % (target, a["later"]))
                continue
            if b["later"] is not None:
                bad.append("after leaving the scope out.backward() raised %s" % type(b["later"]).__name__)
            (s0, l0), (s1, l1) = b["st0"], b["st1"]
            for n in s0:
                for k, what in enumerate(("creator", "creator inputs", "recorded consumers", "gradient", "base", "writeable flag")):
                    if s0[n][k] != s1[n][k]:
                        bad.append("%s.backward() inside no_autodiff changed the %s of %s" % (target, what, n))
            if l0 != l1:
                bad.append("%s.backward() inside no_autodiff changed the lock tables" % target)
            prob = query.Problem(list(p.pc) + list(p.dom))
            for n in ("x", "y", "w", "v"):
                ga, gb = a["T"][n].grad, b["T"][n].grad
                if (ga is None) != (gb is None):
                    bad.append("after leaving the scope out.backward() gives %s.grad %s (without the interlude: %s)" % (n, "None" if gb is None else "an array", "None" if ga is None else "an array"))
                elif ga is not None:
                    if ga.shape != gb.shape:
                        bad.append("later gradient of %s has another shape" % n)
                        continue
                    rr = prob.differ_any(list(zip(terms_of(ga), terms_of(gb))), 10000)
                    res[rr.verdict] += 1
                    if rr.verdict == "sat":
                        bad.append("later gradient of %s differs from the run without the interlude" % n)
                    elif rr.verdict == "unknown":
                        res["status"] = common.INCONCLUSIVE
            if bad:
                rp = _noauto_back_replay(target)
                if rp:
                    res["status"] = common.VIOLATION
                    res["violations"].append({"signature": "no_autodiff-backward:%s" % target, "replay": rp,
                                              "summary": "graph `%s`, then `%s.backward()` inside no_autodiff: %s" % (BACK_GRAPH.replace("\n", "; "), target, "; ".join(bad))})
                else:
                    res["status"] = common.INCONCLUSIVE
                    res["notes"].append("did not reproduce: backward-inside/%s :: %s" % (target, bad))
    res["sample"] = {"case": spec["name"], "graph": BACK_GRAPH, "targets": spec["targets"]}
    return res


def _noauto_back_replay(target):
    src = '''import sys
import numpy as np
import mygrad as mg
import mygrad._utils.lock_management as lm
GRAPH = %r
TARGET = %r
def state(T):
    return {n: (id(t.creator), frozenset(id(o) for o in t._ops), t.grad is None, id(t.base), t.data.flags.writeable) for n, t in T.items()}, dict(lm._array_counter)
def run(interlude):
    x, y = mg.tensor([1.5, -2.0]), mg.tensor([0.5, 3.0])
    env = {"mg": mg, "np": np, "x": x, "y": y}
    exec(GRAPH, env)
    T = {n: env[n] for n in ("x", "y", "w", "v", "c", "k", "out")}
    s0 = state(T)
    bad = []
    if interlude:
        with mg.no_autodiff:
            env[TARGET].backward()
        s1 = state(T)
        if s0 != s1: bad.append("graph state changed by backward() inside no_autodiff")
    try: env["out"].backward()
    except Exception as e: bad.append("later out.backward() raised " + type(e).__name__)
    return {n: None if t.grad is None else t.grad.copy() for n, t in T.items()}, bad
g1, _ = run(False)
g2, bad = run(True)
for n in g1:
    if (g1[n] is None) != (g2[n] is None) or (g1[n] is not None and not np.allclose(g1[n], g2[n])): bad.append("later gradient of " + n)
print(bad)
print('REPRODUCED' if bad else 'NOT-REPRODUCED'); sys.exit(1 if bad else 0)
''' % (BACK_GRAPH, target)
    path = common.write_replay(PROP, gradcase._safe("noauto_back_" + target), src)
    ok, out = common.run_replay(path)
    return path if ok else None


# ------------------------------------------------------------------ (d) interleavings: scopes of DIFFERENT managers exited out of order
def run_interleave(spec, tier, mg):
    """enter / exit events of the three managers in every order in which each exit matches an open entry of the same manager (scopes
    of different managers may overlap without nesting: generators, ExitStack, hand-written __enter__/__exit__).  Specification: when a
    scope exits, the switch it controls returns to the value it had when that scope was entered."""
    import itertools

    import mygrad._utils.graph_tracking as gt
    import mygrad._utils.lock_management as lm

    res = common.new_result()
    mgrs = _managers()  # (name, manager, module, attribute, value set on entry)
    maxlen = 6 if tier == "quick" else 8
    findings = []

    def sequences():
        def rec(seq, open_):
            if seq and not open_:
                yield list(seq)
            if len(seq) >= maxlen:
                return
            for i in range(len(mgrs)):
                if open_.count(i) < 2 and len(seq) + len(open_) + 2 <= maxlen + 1:
                    yield from rec(seq + [("enter", i)], open_ + [i])
            for i in sorted(set(open_)):
                o2 = list(open_)
                o2.reverse(); o2.remove(i); o2.reverse()
                yield from rec(seq + [("exit", i)], o2)
        yield from rec([], [])

    seqs = list(sequences())
    for init in itertools.product([True, False], repeat=2):
        for seq in seqs:
            gt.TRACK_GRAPH, lm.MEM_GUARD = init
            state = {"TRACK_GRAPH": init[0], "MEM_GUARD": init[1]}
            saved = {i: [] for i in range(len(mgrs))}
            bad = None
            try:
                for k, (ev, i) in enumerate(seq):
                    name, mgr, mod, attr, val = mgrs[i]
                    if ev == "enter":
                        saved[i].append(state[attr])
                        state[attr] = val
                        mgr.__enter__()
                    else:
                        state[attr] = saved[i].pop()
                        mgr.__exit__(None, None, None)
                    got = {"TRACK_GRAPH": gt.TRACK_GRAPH, "MEM_GUARD": lm.MEM_GUARD}
                    if got != state:
                        bad = "after event %d of %s from %s: switches %s, expected %s" % (k + 1, [(e, mgrs[j][0]) for e, j in seq], init, got, state)
                        break
            except Exception as e:  # noqa
                bad = "%s raised %s: %s" % ([(e_, mgrs[j][0]) for e_, j in seq], type(e).__name__, e)
            finally:
                lib.reset_state()
            res["paths"] += 1
            if bad:
                findings.append((seq, init, bad))
                if len(findings) >= 3:
                    break
        if len(findings) >= 3:
            break
    gt.TRACK_GRAPH, lm.MEM_GUARD = True, True
    if findings:
        seq, init, bad = findings[0]
        src = '''import sys
import mygrad as mg
import mygrad._utils.graph_tracking as gt
import mygrad._utils.lock_management as lm
M = {"no_autodiff": (mg.no_autodiff, "TRACK_GRAPH", False), "mem_guard_off": (mg.mem_guard_off, "MEM_GUARD", False), "mem_guard_on": (mg.mem_guard_on, "MEM_GUARD", True)}
SEQ = %r; INIT = %r
gt.TRACK_GRAPH, lm.MEM_GUARD = INIT
state = {"TRACK_GRAPH": INIT[0], "MEM_GUARD": INIT[1]}
saved = {n: [] for n in M}
bad = []
try:
    for ev, n in SEQ:
        mgr, attr, val = M[n]
        if ev == "enter":
            saved[n].append(state[attr]); state[attr] = val; mgr.__enter__()
        else:
            state[attr] = saved[n].pop(); mgr.__exit__(None, None, None)
        got = {"TRACK_GRAPH": gt.TRACK_GRAPH, "MEM_GUARD": lm.MEM_GUARD}
        if got != state: bad.append((ev, n, got, dict(state))); break
except Exception as e:
    bad.append(("raised", type(e).__name__, str(e)))
print(bad)
print('REPRODUCED' if bad else 'NOT-REPRODUCED'); sys.exit(1 if bad else 0)
''' % ([(e, mgrs[j][0]) for e, j in seq], tuple(init))
        path = common.write_replay(PROP, "interleave", src)
        ok, out = common.run_replay(path)
        if ok:
            res["status"] = common.VIOLATION
            res["violations"].append({"signature": "interleave:%s" % bad[:40], "replay": path, "summary": bad})
        else:
            res["status"] = common.INCONCLUSIVE
            res["notes"].append("did not reproduce: %s" % bad)
    res["sample"] = {"sequences": len(seqs), "initial settings": 4, "max events": maxlen}
    return res


# ------------------------------------------------------------------ driver
def cases(tier):
    cs = []
    for m in ("no_autodiff", "mem_guard_off", "mem_guard_on"):
        for mode in ("enter", "exit", "pair", "decorator", "decorator-raise"):
            cs.append({"kind": "ind", "name": "inductive/%s/%s" % (m, mode), "mgr": m, "mode": mode})
    cs.append({"kind": "nest", "name": "nesting/bounded"})
    cs.append({"kind": "interleave", "name": "interleaving/bounded"})
    for i in range(0, len(PROGS), 3):
        cs.append({"kind": "noauto", "name": "noauto/%d" % i, "progs": PROGS[i:i + 3]})
    # the same bodies with a memory-guard manager nested inside / around the no_autodiff scope
    for scope in (["no_autodiff", "mem_guard_on"], ["mem_guard_on", "no_autodiff"], ["no_autodiff", "mem_guard_off"], ["mem_guard_off", "no_autodiff", "mem_guard_on"]):
        for i in range(0, len(PROGS), 6):
            cs.append({"kind": "noauto", "name": "noauto/%s/%d" % (">".join(scope), i), "progs": PROGS[i:i + 6], "scope": scope})
    for i in range(0, len(BACK_TARGETS), 2):
        cs.append({"kind": "noauto-back", "name": "noauto-backward/%d" % i, "targets": BACK_TARGETS[i:i + 2]})
    return cs


def run_case(spec, tier):
    mg = common._WORKER["mg"]
    if spec["kind"] == "ind":
        return run_inductive(spec, tier)
    if spec["kind"] == "nest":
        return run_nesting(spec, tier, mg)
    if spec["kind"] == "interleave":
        return run_interleave(spec, tier, mg)
    if spec["kind"] == "noauto-back":
        return run_noauto_backward(spec, tier, mg)
    return run_noautodiff(spec, tier, mg)


def main(argv=None):
    args = common.parse_args(argv)
    cs = cases(args.tier)
    if args.only:
        cs = [c for c in cs if args.only in c["name"]]

    def extra(results):
        return {"obligations": sum(r.get("obligations", 0) for r in results if r),
                "discharged": sum(r.get("discharged", 0) for r in results if r)}

    describe = dict(
        level="other",
        rule="(a) one case per manager x {enter, exit, enter;exit, decorator, decorator with raising body}, depth and tracker symbolic; "
             "one case executing every well-nested forest of <= 3 (thorough 4) scopes over the three managers as context/decorator with "
             "an exception at each position and all 4 initial settings; (b) 18 programs run inside no_autodiff, and inside no_autodiff combined with mem_guard_on / mem_guard_off nested "
             "inside or around it (4 scope stacks); (c) backward() called inside no_autodiff on each tensor of a graph recorded outside",
        explanation="(a) inductive step: the real __enter__/__exit__/__call__ run with `_depth` an unbounded z3 integer and `_depth_tracker` "
                    "a z3 array under the invariant keys=[0,depth); z3 discharges frame and restore obligations, from which well-nested "
                    "restoration follows by induction on paper; the bounded nesting run cross-checks the induction schema. (b) values of "
                    "the untracked run equal the tracked run for all real inputs (z3), structural facts observed per path",
        functions=["mygrad._utils.ContextTracker.__enter__", "ContextTracker.__exit__", "ContextTracker.__call__",
                   "mygrad._utils.graph_tracking._NoAutoDiff.state", "mygrad._utils.lock_management.MemStateContext.state",
                   "turn_memory_guarding_on/off", "Tensor._op / _in_place_op / backward untracked fast paths"],
        bounds={"depth": "unbounded (symbolic)", "nesting cross-check": "<= 3 scopes quick, <= 4 thorough", "programs": "%d listed programs, shapes (2,),(2,2)" % len(PROGS)},
        assumptions=["well-nested use (no generator suspended inside a scope, no threads)", "induction over nesting depth is on paper"],
        outside=["threads / generators interleaving scopes", "dtype equality (dtype lane of C03)"],
    )
    return common.main(PROP, "harness.C15", cs, args.tier, args.seed, describe, extra_evidence=extra, deadline_s=900)


if __name__ == "__main__":
    sys.exit(main())
