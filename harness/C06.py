"""C06 — a view's gradient is the corresponding view of its base's gradient (DESIGN §3 C06)."""
import itertools
import sys

import numpy as np

from symnp import engine as eng_mod, lib, query, terms as tm
from symnp.scalars import Sym, symarr, terms_of

from . import common, gradcase

PROP = "C06"

# (source template on tensors, same function on arrays)
VIEW_OPS = {
    "slice": ("{s}[1:]", lambda a: a[1:]),
    "rev": ("{s}[::-1]", lambda a: a[::-1]),
    "step": ("{s}[..., ::2]", lambda a: a[..., ::2]),
    "int": ("{s}[0]", lambda a: a[0]),
    "newaxis": ("{s}[..., None]", lambda a: a[..., None]),
    "T": ("{s}.T", lambda a: a.T),
    "ravel": ("{s}.reshape(-1)", lambda a: a.reshape(-1)),
    "reshape32": ("{s}.reshape(3, 2)", lambda a: a.reshape(3, 2)),
    "swap": ("mg.swapaxes({s}, 0, -1)", lambda a: np.swapaxes(a, 0, -1)),
    "diag": ("mg.einsum('ii->i', {s})", lambda a: np.einsum("ii->i", a)),
    "col": ("{s}[:, 1]", lambda a: a[:, 1]),
    "squeeze": ("mg.squeeze({s}[:1], axis=0)", lambda a: np.squeeze(a[:1], axis=0)),
    "moveaxis": ("mg.moveaxis({s}, 0, -1)", lambda a: np.moveaxis(a, 0, -1)),
    "expand": ("mg.expand_dims({s}, 0)", lambda a: np.expand_dims(a, 0)),
    "ellipsis": ("{s}[...]", lambda a: a[...]),
    # back to the axis order the memory was written in, then merged axes: a view only if the gradient has the data's layout
    "permreshape": ("{s}.transpose(1, 2, 0).reshape(-1, 3)", lambda a: a.transpose(1, 2, 0).reshape(-1, 3)),
}


def _zeros(shape, fo):
    """a base array: C-ordered, the transpose of a C-ordered array (fo is True), or - fo == "perm" - a 3-d array whose axes were
    permuted (neither C- nor F-ordered)"""
    if fo == "perm":
        return np.zeros((shape[1], shape[2], shape[0])).transpose(2, 0, 1)
    return np.zeros(shape[::-1]).T if fo else np.zeros(shape)


def _symbase(shape, fo):
    if fo == "perm":
        return symarr("b", (shape[1], shape[2], shape[0])).transpose(2, 0, 1)
    return symarr("b", shape[::-1]).T if fo else symarr("b", shape)
PERM_BASES = {"perm3": (3, 2, 2)}
BASES = {"flat6": (6,), "mat23": (2, 3), "sq33": (3, 3), "mat23F": (2, 3), "mat32F": (3, 2), "cube": (2, 1, 3), "cubeF": (2, 1, 3)}
F_ORDERED = {"mat23F", "mat32F", "cubeF"}  # the base owns non C-ordered memory


def _chain_ok(shape, chain, fo=False):
    a = _zeros(shape, fo)
    try:
        for op in chain:
            b = VIEW_OPS[op][1](a)
            if not np.shares_memory(b, a) or b.size == 0 or np.ndim(b) == 0 and False:
                return False
            if not isinstance(b, np.ndarray):
                return False
            a = b
        return True
    except Exception:
        return False


def cases(tier):
    quick = tier == "quick"
    out = []
    ops = list(VIEW_OPS)
    maxlen = 2 if quick else 3
    for base, shape in BASES.items():
        if base == "cube" and quick:
            continue
        chains = []
        for n in range(1, maxlen + 1):
            for ch in itertools.product(ops, repeat=n):
                if n == 3 and (hash(ch) % 5):
                    continue
                if _chain_ok(shape, ch, base in F_ORDERED):
                    chains.append(list(ch))
        for i in range(0, len(chains), 8):
            out.append({"name": "%s/%d" % (base, i), "base": base, "chains": chains[i:i + 8]})
        # two graph epochs: a view left over from a back-propagated graph becomes the base of new views
        pairs = [[a, b2] for a in ops for b2 in ops if _chain_ok(shape, [a, b2], base in F_ORDERED)]
        if quick:
            pairs = pairs[::2] if base in ("flat6", "mat23") else pairs[::5]
        for i in range(0, len(pairs), 12):
            out.append({"name": "%s/epoch2/%d" % (base, i), "base": base, "epoch2": pairs[i:i + 12]})
        # the base is itself the tensor backward() is called on (default seed, or a seed array supplied by the caller), as a leaf or as an
        # intermediate whose data are not C-ordered
        ch = [c for c in chains if len(c) <= 2]
        if quick:
            ch = ch[::3]
        for i in range(0, len(ch), 10):
            out.append({"name": "%s/terminal/%d" % (base, i), "base": base, "terminal": ch[i:i + 10]})
    # a 3-d base whose axes were permuted (neither C- nor F-ordered); the first gradient contribution comes from a product with a weight
    # of yet another axis order, or from the views
    chains = [c for n in (1, 2) for c in itertools.product(list(VIEW_OPS), repeat=n) if "permreshape" in c and _chain_ok((3, 2, 2), c, "perm")]
    chains += [c for c in itertools.product(["slice", "rev", "T", "swap", "moveaxis", "int", "ellipsis"], repeat=1) if _chain_ok((3, 2, 2), c, "perm")]
    for i in range(0, len(chains), 6):
        out.append({"name": "perm3/%d" % i, "base": "perm3", "chains": [list(c) for c in chains[i:i + 6]], "wperm": True})
    return out


def consumer_sets(nviews, quick):
    """which of {b, v1..vk} are read, in which order (the order in which gradient contributions arrive)"""
    names = ["b"] + ["v%d" % (i + 1) for i in range(nviews)]
    sets = []
    for r in (1, 2, 3):
        for combo in itertools.permutations(names, r):
            if "b" not in combo and names[-1] not in combo:
                continue
            sets.append(list(combo))
    if quick:
        sets = [s for s in sets if len(s) <= 2] + [s for s in sets if len(s) == 3][::3]
    return sets


def run_case(spec, tier):
    mg = common._WORKER["mg"]
    res = common.new_result()
    shape = BASES.get(spec["base"]) or PERM_BASES[spec["base"]]
    quick = tier == "quick"
    engine = eng_mod.Engine(skip_ties=True)
    engine.reset_fn = lib.reset_state
    nprog = 0
    if spec.get("wperm"):
        return _run_wperm_case(spec, mg, engine, shape, res)
    if "epoch2" in spec:
        return _run_epoch2_case(spec, mg, engine, shape, res)
    if "terminal" in spec:
        return _run_terminal_case(spec, mg, engine, shape, res)
    for chain in spec["chains"]:
        for cons in consumer_sets(len(chain), quick):
          for kinds in ([("mul",) * len(cons)] + ([tuple("lin" if j == 0 else "mul" for j in range(len(cons))),
                                                    tuple("lin" if j == len(cons) - 1 else "mul" for j in range(len(cons)))] if len(cons) <= 2 else [])):
            for second in ((False,) if quick and (len(cons) > 1 or "lin" in kinds) else (False, True)):
                nprog += 1
                lines = []
                prev = "b"
                for i, op in enumerate(chain):
                    lines.append("v%d = %s" % (i + 1, VIEW_OPS[op][0].format(s=prev)))
                    prev = "v%d" % (i + 1)
                for j, c in enumerate(cons):
                    if kinds[j] == "lin":
                        # an op whose backward hands back a VIEW of a temporary (matrix @ vector, vector through a matrix)
                        lines.append("r%d = lin(%s, %d).sum()" % (j, c, j))
                    else:
                        lines.append("r%d = (%s * %s * q[%d]).sum()" % (j, c, c, j))
                lines.append("L = " + " + ".join("r%d" % j for j in range(len(cons))))
                fo = spec["base"] in F_ORDERED
                bad = _run(mg, engine, shape, chain, lines, second, res, fo)
                if bad:
                    rp = _replay(spec, shape, chain, lines, second, nprog, fo)
                    if rp:
                        res["status"] = common.VIOLATION
                        res["violations"].append({"signature": "view-grad:%s" % bad[:40], "replay": rp,
                                                  "summary": "base %s, program `%s`%s: %s" % (shape, "; ".join(lines), " + second pass on the base" if second else "", bad)})
                    else:
                        res["status"] = common.INCONCLUSIVE
                        res["notes"].append("did not reproduce: %s :: %s" % ("; ".join(lines), bad))
    res["programs"] = nprog
    res["sample"] = {"base": list(shape), "program": lines}
    return res


def _run_wperm_case(spec, mg, engine, shape, res):
    nprog = 0
    lines = []
    for chain in spec["chains"]:
        views = []
        prev = "b"
        for i, op in enumerate(chain):
            views.append("v%d = %s" % (i + 1, VIEW_OPS[op][0].format(s=prev)))
            prev = "v%d" % (i + 1)
        for consumers in (["r0 = (b * WP).sum()", "r1 = (%s * %s * q[1]).sum()" % (prev, prev)], ["r0 = (b * WP).sum()"], ["r0 = (b * b * q[0]).sum()"],
                          ["r0 = (%s * q[0]).sum()" % prev, "r1 = (b * WP * q[1]).sum()"]):
            for order in ((0, 1), (1, 0)) if len(consumers) == 2 else ((0,),):
                for second in (False, True):
                    nprog += 1
                    lines = views + consumers + ["L = " + " + ".join("r%d" % j for j in order)]
                    bad = _run(mg, engine, shape, chain, lines, second, res, "perm")
                    if bad:
                        rp = _replay(spec, shape, chain, lines, second, nprog, "perm")
                        if rp:
                            res["status"] = common.VIOLATION
                            res["violations"].append({"signature": "view-grad:%s" % bad[:40], "replay": rp,
                                                      "summary": "base %s with permuted axes, program `%s`%s: %s" % (shape, "; ".join(lines), " + second pass on the base" if second else "", bad)})
                        else:
                            res["status"] = common.INCONCLUSIVE
                            res["notes"].append("did not reproduce: %s :: %s" % ("; ".join(lines), bad))
    res["programs"] = nprog
    res["sample"] = {"base": list(shape), "layout": "axes permuted (2, 0, 1)", "program": lines}
    return res


def _run(mg, engine, shape, chain, lines, second, res, fo=False):
    def body():
        b0 = _symbase(shape, fo)
        env = {"mg": mg, "np": np, "b": mg.Tensor(b0), "q": [symarr("q%d" % i, ()) for i in range(3)]}
        if fo == "perm":
            # a weight of the base's shape whose memory has yet another axis order
            env["WP"] = np.array(symarr("WP", (shape[1], shape[0], shape[2])), dtype=object).transpose(1, 0, 2)

        def lin(c, j):
            if c.ndim == 1:
                return mg.matmul(np.array(symarr("W%d" % j, (2, c.shape[0])), dtype=object), c)
            if c.ndim == 2:
                return mg.matmul(c, np.array(symarr("w%d" % j, (c.shape[1],)), dtype=object))
            return c * env["q"][j]

        env["lin"] = lin
        for ln in lines:
            exec(ln, env)
        env["L"].backward()
        return env

    for p in engine.explore(body, max_paths=20, max_seconds=60):
        res["paths"] += 1
        if p.exc is not None:
            return "raised %s: %s" % (type(p.exc).__name__, p.exc)
        env = p.out
        b = env["b"]
        views = [env["v%d" % (i + 1)] for i in range(len(chain))]
        if b.grad is None:
            return "base has no gradient"
        prob = query.Problem(list(p.pc) + list(p.dom))
        g = b.grad
        exp = g
        for i, (op, v) in enumerate(zip(chain, views)):
            exp = VIEW_OPS[op][1](exp)
            vg = v.grad
            if vg is None:
                return "v%d.grad is None although the base has a gradient" % (i + 1)
            if type(vg) is not np.ndarray:
                return "v%d.grad is not an ndarray" % (i + 1)
            if vg.shape != exp.shape:
                return "v%d.grad has shape %s, the view of the base's gradient has %s" % (i + 1, vg.shape, exp.shape)
            r = prob.differ_any(list(zip(terms_of(vg), terms_of(exp))), 10000)
            res[r.verdict] += 1
            if r.verdict == "sat":
                return "v%d.grad differs from the view chain applied to the base's gradient" % (i + 1)
            if r.verdict == "unknown":
                res["status"] = common.INCONCLUSIVE
            if not np.shares_memory(vg, g):
                return "v%d.grad does not share memory with the base's gradient" % (i + 1)
        # write-through probe
        fresh = symarr("w", g.shape)
        g[...] = fresh
        exp = g
        for i, (op, v) in enumerate(zip(chain, views)):
            exp = VIEW_OPS[op][1](exp)
            vg = v.grad
            if vg is None or [t.uid for t in terms_of(vg)] != [t.uid for t in terms_of(exp)]:
                return "writing into b.grad is not visible through v%d.grad" % (i + 1)
        # tensors that do not share memory must not have gradients that share memory
        tens = [(n, t) for n, t in env.items() if isinstance(t, mg.Tensor) and t.grad is not None]
        for (n1, t1), (n2, t2) in itertools.combinations(tens, 2):
            if not np.shares_memory(t1.data, t2.data) and np.shares_memory(t1.grad, t2.grad):
                return "gradients of %s and %s share memory although the tensors do not" % (n1, n2)
        if second:
            L2 = (b * env["q"][2]).sum()
            for i, v in enumerate(views):
                if v.grad is not None:
                    return "after the base entered a new operation v%d.grad is not None" % (i + 1)
            if b.grad is not None:
                return "after the base entered a new operation b.grad is not None"
            L2.backward()
            exp = b.grad
            for i, (op, v) in enumerate(zip(chain, views)):
                exp = VIEW_OPS[op][1](exp)
                vg = v.grad
                if vg is not None:
                    if vg.shape != exp.shape or prob.differ_any(list(zip(terms_of(vg), terms_of(exp))), 10000).verdict != "unsat":
                        return "after a second pass on the base only, v%d.grad is neither None nor the view of the new gradient" % (i + 1)
    return None


TERMINAL_MODES = ["leaf/default", "leaf/seed", "inter/default", "inter/seed"]


def _run_terminal_case(spec, mg, engine, shape, res):
    fo = spec["base"] in F_ORDERED
    nprog = 0
    lines = []
    for chain in spec["terminal"]:
        for mode in TERMINAL_MODES:
            nprog += 1
            lines = []
            prev = "b"
            for i, op in enumerate(chain):
                lines.append("v%d = %s" % (i + 1, VIEW_OPS[op][0].format(s=prev)))
                prev = "v%d" % (i + 1)
            bad = _run_terminal(mg, engine, shape, chain, lines, mode, res, fo)
            if bad:
                rp = _replay_terminal(spec, shape, chain, lines, mode, nprog, fo)
                if rp:
                    res["status"] = common.VIOLATION
                    res["violations"].append({"signature": "view-grad-terminal:%s" % bad[:40], "replay": rp,
                                              "summary": "base %s%s (%s), `%s; b.backward(%s)`: %s" % (shape, " non-C-ordered" if fo else "", mode.split("/")[0],
                                                                                                        "; ".join(lines), "g" if mode.endswith("seed") else "", bad)})
                else:
                    res["status"] = common.INCONCLUSIVE
                    res["notes"].append("did not reproduce: terminal %s %s :: %s" % (mode, "; ".join(lines), bad))
    res["programs"] = nprog
    res["sample"] = {"base": list(shape), "program": lines, "then": "b.backward() / b.backward(g) with b the base of the views"}
    return res


def _run_terminal(mg, engine, shape, chain, lines, mode, res, fo):
    def body():
        b0 = symarr("b", shape[::-1]).T if fo else symarr("b", shape)
        if mode.startswith("leaf"):
            b = mg.Tensor(b0)
        else:
            b = mg.Tensor(b0) * np.array(symarr("k", ()), dtype=object)  # an intermediate tensor with the same memory layout as its input
        env = {"mg": mg, "np": np, "b": b}
        for ln in lines:
            exec(ln, env)
        g = None
        if mode.endswith("seed"):
            g = symarr("g", shape)  # the caller's seed: an ordinary C-ordered array of the base's shape
            guid = [t.uid for t in terms_of(g)]
            b.backward(g)
            if [t.uid for t in terms_of(g)] != guid:
                env["__seed_changed__"] = True
        else:
            b.backward()
        env["__g__"] = g
        return env

    for p in engine.explore(body, max_paths=20, max_seconds=60):
        res["paths"] += 1
        if p.exc is not None:
            return "raised %s: %s" % (type(p.exc).__name__, p.exc)
        env = p.out
        b = env["b"]
        views = [env["v%d" % (i + 1)] for i in range(len(chain))]
        if b.grad is None:
            return "base has no gradient"
        if env.get("__seed_changed__"):
            return "backward(g) changed the caller's seed array"
        g = b.grad
        prob = query.Problem(list(p.pc) + list(p.dom))
        exp = g
        for i, (op, v) in enumerate(zip(chain, views)):
            exp = VIEW_OPS[op][1](exp)
            vg = v.grad
            if vg is None:
                return "v%d.grad is None although the base has a gradient" % (i + 1)
            if vg.shape != exp.shape:
                return "v%d.grad has shape %s, the view of the base's gradient has %s" % (i + 1, vg.shape, exp.shape)
            r = prob.differ_any(list(zip(terms_of(vg), terms_of(exp))), 10000)
            res[r.verdict] += 1
            if r.verdict == "sat":
                return "v%d.grad differs from the view chain applied to the base's gradient" % (i + 1)
            if not np.shares_memory(vg, g):
                return "v%d.grad does not share memory with the base's gradient" % (i + 1)
    return None


def _replay_terminal(spec, shape, chain, lines, mode, k, fo):
    src = '''import sys
import numpy as np
import mygrad as mg
OPS = {
 "slice": lambda a: a[1:], "rev": lambda a: a[::-1], "step": lambda a: a[..., ::2], "int": lambda a: a[0], "newaxis": lambda a: a[..., None],
 "T": lambda a: a.T, "ravel": lambda a: a.reshape(-1), "reshape32": lambda a: a.reshape(3, 2), "swap": lambda a: np.swapaxes(a, 0, -1),
 "diag": lambda a: np.einsum("ii->i", a), "col": lambda a: a[:, 1], "squeeze": lambda a: np.squeeze(a[:1], axis=0),
 "moveaxis": lambda a: np.moveaxis(a, 0, -1), "expand": lambda a: np.expand_dims(a, 0), "ellipsis": lambda a: a[...]}
CHAIN = %r; LINES = %r; MODE = %r; SHAPE = %r; FO = %r
rng = np.random.RandomState(3)
b0 = (rng.rand(*SHAPE[::-1]) + 0.5).T if FO else rng.rand(*SHAPE) + 0.5
b = mg.Tensor(b0) if MODE.startswith("leaf") else mg.Tensor(b0) * 1.5
env = {"mg": mg, "np": np, "b": b}
bad = []
try:
    for ln in LINES: exec(ln, env)
    g = None
    if MODE.endswith("seed"):
        g = rng.rand(*SHAPE) + 0.5; g0 = g.copy(); b.backward(g)
        if not np.array_equal(g, g0): bad.append("seed changed")
    else:
        b.backward()
    exp = b.grad
    for i, op in enumerate(CHAIN):
        exp = OPS[op](exp); v = env["v%%d" %% (i + 1)]
        if v.grad is None or v.grad.shape != exp.shape or not np.allclose(v.grad, exp) or not np.shares_memory(v.grad, b.grad):
            bad.append("v%%d.grad is not the sharing view of b.grad" %% (i + 1))
except Exception as e:
    bad.append("raised %%s: %%s" %% (type(e).__name__, e))
print(bad)
print('REPRODUCED' if bad else 'NOT-REPRODUCED'); sys.exit(1 if bad else 0)
''' % (list(chain), list(lines), mode, tuple(shape), bool(fo))
    path = common.write_replay(PROP, gradcase._safe("%s_%d" % (spec["name"], k)), src)
    ok, out = common.run_replay(path)
    return path if ok else None


E2_READERS = [["w"], ["w", "v"], ["v", "w"], ["w", "w2"]]


def _run_epoch2_case(spec, mg, engine, shape, res):
    fo = spec["base"] in F_ORDERED
    nprog = 0
    for op1, op2 in spec["epoch2"]:
        for readers in E2_READERS:
            nprog += 1
            lines1 = ["v = " + VIEW_OPS[op1][0].format(s="b"), "L = (v * v * q[0]).sum()"]
            lines2 = ["w = " + VIEW_OPS[op2][0].format(s="v")] + (["w2 = w[...]"] if "w2" in readers else [])
            lines2 += ["r%d = (%s * %s * q[%d]).sum()" % (j, c, c, j + 1) for j, c in enumerate(readers)]
            lines2 += ["L2 = " + " + ".join("r%d" % j for j in range(len(readers)))]
            bad = _run_epoch2(mg, engine, shape, op2, lines1, lines2, "w2" in readers, res, fo)
            if bad:
                rp = _replay_epoch2(spec, shape, op2, lines1, lines2, "w2" in readers, nprog, fo)
                if rp:
                    res["status"] = common.VIOLATION
                    res["violations"].append({"signature": "view-grad-epoch2:%s" % bad[:40], "replay": rp,
                                              "summary": "base %s, `%s; L.backward(); %s; L2.backward()`: %s" % (shape, "; ".join(lines1), "; ".join(lines2), bad)})
                else:
                    res["status"] = common.INCONCLUSIVE
                    res["notes"].append("did not reproduce: %s | %s :: %s" % ("; ".join(lines1), "; ".join(lines2), bad))
    res["programs"] = nprog
    res["sample"] = {"base": list(shape), "epoch1": lines1, "epoch2": lines2}
    return res


def _run_epoch2(mg, engine, shape, op2, lines1, lines2, has_w2, res, fo):
    def body():
        b0 = symarr("b", shape[::-1]).T if fo else symarr("b", shape)
        env = {"mg": mg, "np": np, "b": mg.Tensor(b0), "q": [symarr("q%d" % i, ()) for i in range(4)]}
        for ln in lines1:
            exec(ln, env)
        env["L"].backward()
        for ln in lines2:
            exec(ln, env)
        env["L2"].backward()
        return env

    for p in engine.explore(body, max_paths=20, max_seconds=60):
        res["paths"] += 1
        if p.exc is not None:
            return "raised %s: %s" % (type(p.exc).__name__, p.exc)
        env = p.out
        v, w = env["v"], env["w"]
        # in the second epoch v is the tensor the new views were taken from; its graph of the first epoch is gone
        if v.grad is None:
            return "v (base of the second epoch) has no gradient"
        prob = query.Problem(list(p.pc) + list(p.dom))
        g = v.grad
        exp = VIEW_OPS[op2][1](g)
        for name, t in [("w", w)] + ([("w2", env["w2"])] if has_w2 else []):
            tg = t.grad
            if tg is None:
                return "%s.grad is None although the tensor it views has a gradient" % name
            if tg.shape != exp.shape:
                return "%s.grad has shape %s, the view of v.grad has %s" % (name, tg.shape, exp.shape)
            r = prob.differ_any(list(zip(terms_of(tg), terms_of(exp))), 10000)
            res[r.verdict] += 1
            if r.verdict == "sat":
                return "%s.grad differs from its view operation applied to v.grad" % name
            if r.verdict == "unknown":
                res["status"] = common.INCONCLUSIVE
            if not np.shares_memory(tg, g):
                return "%s.grad does not share memory with v.grad" % name
        fresh = symarr("f", g.shape)
        g[...] = fresh
        if w.grad is None or [t.uid for t in terms_of(w.grad)] != [t.uid for t in terms_of(VIEW_OPS[op2][1](g))]:
            return "writing into v.grad is not visible through w.grad"
    return None


def _replay_epoch2(spec, shape, op2, lines1, lines2, has_w2, k, fo):
    src = '''import sys
import numpy as np
import mygrad as mg
OPS = {
 "slice": lambda a: a[1:], "rev": lambda a: a[::-1], "step": lambda a: a[..., ::2], "int": lambda a: a[0], "newaxis": lambda a: a[..., None],
 "T": lambda a: a.T, "ravel": lambda a: a.reshape(-1), "reshape32": lambda a: a.reshape(3, 2), "swap": lambda a: np.swapaxes(a, 0, -1),
 "diag": lambda a: np.einsum("ii->i", a), "col": lambda a: a[:, 1], "squeeze": lambda a: np.squeeze(a[:1], axis=0),
 "moveaxis": lambda a: np.moveaxis(a, 0, -1), "expand": lambda a: np.expand_dims(a, 0), "ellipsis": lambda a: a[...]}
OP2 = %r; L1 = %r; L2 = %r; HAS_W2 = %r
rng = np.random.RandomState(3)
env = {"mg": mg, "np": np, "b": mg.Tensor((rng.rand(*%r[::-1]) + 0.5).T if %r else rng.rand(*%r) + 0.5), "q": [np.array(1.5), np.array(2.5), np.array(3.5), np.array(0.75)]}
bad = []
try:
    for ln in L1: exec(ln, env)
    env["L"].backward()
    for ln in L2: exec(ln, env)
    env["L2"].backward()
    v, w = env["v"], env["w"]
    if v.grad is None: bad.append("v has no gradient")
    else:
        exp = OPS[OP2](v.grad)
        for n in ["w"] + (["w2"] if HAS_W2 else []):
            t = env[n]
            if t.grad is None or t.grad.shape != exp.shape or not np.allclose(t.grad, exp) or not np.shares_memory(t.grad, v.grad):
                bad.append(n + ".grad is not the sharing view of v.grad")
        v.grad[...] = rng.rand(*v.grad.shape)
        if w.grad is None or not np.array_equal(w.grad, OPS[OP2](v.grad)): bad.append("write-through w")
except Exception as e:
    bad.append("raised %%s: %%s" %% (type(e).__name__, e))
print(bad)
print('REPRODUCED' if bad else 'NOT-REPRODUCED'); sys.exit(1 if bad else 0)
''' % (op2, list(lines1), list(lines2), bool(has_w2), tuple(shape), bool(fo), tuple(shape))
    path = common.write_replay(PROP, gradcase._safe("%s_%d" % (spec["name"], k)), src)
    ok, out = common.run_replay(path)
    return path if ok else None


def _replay(spec, shape, chain, lines, second, k, fo=False):
    src = '''import sys, itertools
import numpy as np
import mygrad as mg
OPS = {
 "slice": lambda a: a[1:], "rev": lambda a: a[::-1], "step": lambda a: a[..., ::2], "int": lambda a: a[0], "newaxis": lambda a: a[..., None],
 "T": lambda a: a.T, "ravel": lambda a: a.reshape(-1), "reshape32": lambda a: a.reshape(3, 2), "swap": lambda a: np.swapaxes(a, 0, -1),
 "diag": lambda a: np.einsum("ii->i", a), "col": lambda a: a[:, 1], "squeeze": lambda a: np.squeeze(a[:1], axis=0),
 "moveaxis": lambda a: np.moveaxis(a, 0, -1), "expand": lambda a: np.expand_dims(a, 0), "ellipsis": lambda a: a[...],
 "permreshape": lambda a: a.transpose(1, 2, 0).reshape(-1, 3)}
CHAIN = %r; LINES = %r; SECOND = %r
rng = np.random.RandomState(3)
SHAPE = %r; FO = %r; _unused = %r
if FO == "perm":
    b0 = (rng.rand(SHAPE[1], SHAPE[2], SHAPE[0]) + 0.5).transpose(2, 0, 1)
else:
    b0 = (rng.rand(*SHAPE[::-1]) + 0.5).T if FO else rng.rand(*SHAPE) + 0.5
env = {"mg": mg, "np": np, "b": mg.Tensor(b0), "q": [np.array(1.5), np.array(2.5), np.array(3.5)]}
if FO == "perm": env["WP"] = (rng.rand(SHAPE[1], SHAPE[0], SHAPE[2]) + 0.5).transpose(1, 0, 2)
def lin(c, j):
    r = np.random.RandomState(20 + j)
    if c.ndim == 1: return mg.matmul(r.rand(2, c.shape[0]) + 0.5, c)
    if c.ndim == 2: return mg.matmul(c, r.rand(c.shape[1]) + 0.5)
    return c * env["q"][j]
env["lin"] = lin
bad = []
try:
    for ln in LINES: exec(ln, env)
    env["L"].backward()
    b = env["b"]; views = [env["v%%d" %% (i + 1)] for i in range(len(CHAIN))]
    g = b.grad
    if g is None: bad.append("base has no gradient")
    else:
        exp = g
        for i, (op, v) in enumerate(zip(CHAIN, views)):
            exp = OPS[op](exp)
            if v.grad is None or v.grad.shape != exp.shape or not np.allclose(v.grad, exp) or not np.shares_memory(v.grad, g):
                bad.append("v%%d.grad is not the sharing view of b.grad" %% (i + 1))
        g[...] = rng.rand(*g.shape)
        exp = g
        for i, (op, v) in enumerate(zip(CHAIN, views)):
            exp = OPS[op](exp)
            if v.grad is None or not np.array_equal(v.grad, exp): bad.append("write-through v%%d" %% (i + 1))
        tens = [(n, t) for n, t in env.items() if isinstance(t, mg.Tensor) and t.grad is not None]
        for (n1, t1), (n2, t2) in itertools.combinations(tens, 2):
            if not np.shares_memory(t1.data, t2.data) and np.shares_memory(t1.grad, t2.grad): bad.append("aliased grads %%s %%s" %% (n1, n2))
        if SECOND:
            L2 = (b * 3.5).sum()
            if b.grad is not None or any(v.grad is not None for v in views): bad.append("stale gradient after re-use")
            L2.backward()
            exp = b.grad
            for i, (op, v) in enumerate(zip(CHAIN, views)):
                exp = OPS[op](exp)
                if v.grad is not None and (v.grad.shape != exp.shape or not np.allclose(v.grad, exp)): bad.append("second pass v%%d" %% (i + 1))
except Exception as e:
    bad.append("raised %%s: %%s" %% (type(e).__name__, e))
print(bad)
print('REPRODUCED' if bad else 'NOT-REPRODUCED'); sys.exit(1 if bad else 0)
''' % (list(chain), list(lines), bool(second), tuple(shape), fo if fo == "perm" else bool(fo), tuple(shape))
    path = common.write_replay(PROP, gradcase._safe("%s_%d" % (spec["name"], k)), src)
    ok, out = common.run_replay(path)
    return path if ok else None


def main(argv=None):
    args = common.parse_args(argv)
    cs = cases(args.tier)
    if args.only:
        cs = [c for c in cs if args.only in c["name"]]

    def extra(results):
        return {"programs": sum(r.get("programs", 0) for r in results if r)}

    describe = dict(
        level="other",
        rule="bases (6,), (2,3), (3,3), (2,1,3) and non-C-ordered (2,3), (3,2), (2,1,3); readers are products or matmul-type ops (whose backward returns a "
             "view of a temporary); a two-epoch family (v = op1(b), backward, then w = op2(v) with readers on w / v / a view of w, backward: w.grad must be "
             "the sharing view of v.grad); every legal view chain of length <= 2 (thorough: + a fifth of the length-3 chains) over 15 view ops "
             "(slices, reversed/strided, integer, newaxis, T, reshape, swapaxes, moveaxis, expand_dims, squeeze, diagonal einsum, ...); every "
             "ordered selection of <= 3 readers among base and views (the order in which gradient contributions arrive); optional second "
             "forward/backward on the base only",
        explanation="programs enumerated; data symbolic. Per program: v.grad available iff b.grad is, v.grad terms equal the view chain applied "
                    "to b.grad (z3), np.shares_memory(v.grad, b.grad), write-through probe (fresh symbols written into b.grad show in v.grad), "
                    "no gradient aliasing between tensors that do not share memory, stale gradients read None after re-use",
        functions=["mygrad.tensor_base.Tensor.grad (property)", "Tensor._replay_op", "Tensor.clear_graph ('pull')",
                   "mygrad.operation_base.Operation.backward (copy of the first contribution)"],
        bounds={"chain length": "<= 2 (quick) / <= 3 strided (thorough)", "readers": "<= 3"},
        assumptions=["same graph epoch for the first part"], outside=["views of views across epochs"], exhaustive=True,
    )
    return common.main(PROP, "harness.C06", cs, args.tier, args.seed, describe, extra_evidence=extra,
                       deadline_s=900 if args.tier == "quick" else 3000)


if __name__ == "__main__":
    sys.exit(main())
