"""C17 — tensor construction and conversion: copying, aliasing and dtype rules; creation routines (DESIGN §3 C17).

Strength (stated in DESIGN): mostly configuration enumeration.  The symbolic part: `ndmin` is a SymInt (the real
`tensor()` / `Tensor.__init__` comparisons on ndmin fork in the engine) and data are symbolic for the aliasing probe
(fresh symbols written into the source must, or must not, show in the result); dtype facts are observed on concrete arrays.
"""
import itertools
import sys

import numpy as np
import z3

from symnp import engine as eng_mod, lib, query, terms as tm
from symnp.scalars import Sym, SymInt, symarr, terms_of

from . import common, gradcase

PROP = "C17"


def cases(tier):
    out = []
    for maker in ("tensor", "Tensor", "astensor"):
        for src in ("array", "array0d", "list", "tensor", "tensor-with-graph", "tensor-with-grad", "scalar"):
            out.append({"kind": "ndmin", "name": "ndmin/%s/%s" % (maker, src), "maker": maker, "src": src})
    out.append({"kind": "alias", "name": "aliasing-table"})
    out.append({"kind": "detach", "name": "copy-astype-detached"})
    out.append({"kind": "creation", "name": "creation-routines"})
    out.append({"kind": "dtype-gate", "name": "non-real-dtypes"})
    return out


def _make_src(mg, kind, symbolic=True):
    base = symarr("s", (2,)) if symbolic else np.array([1.5, -2.0])
    if kind == "array":
        return np.array(base, dtype=object if symbolic else float), "array"
    if kind == "array0d":
        return (np.array(symarr("s", ()), dtype=object) if symbolic else np.array(2.5)), "array"
    if kind == "list":
        return ([[1.0, 2.0], [3.0, 4.0]]), "list"
    if kind == "scalar":
        return 3.5, "scalar"
    t = mg.Tensor(base)
    if kind == "tensor-with-graph":
        t = t * 1.0
    if kind == "tensor-with-grad":
        (t * 2.0).sum().backward()
    return t, "tensor"


def run_ndmin(spec, tier, mg):
    """ndmin symbolic in [-1, 4]: the library's own comparisons decide the paths"""
    res = common.new_result()
    engine = eng_mod.Engine()
    engine.reset_fn = lib.reset_state
    maker, skind = spec["maker"], spec["src"]
    findings = []
    for copy in ((True, False) if maker != "astensor" else (None,)):
        def body():
            n = SymInt(z3.Int("ndmin"))
            engine.assume(n.t >= -1)
            engine.assume(n.t <= 4)
            src, cat = _make_src(mg, skind)
            creator0 = src.creator if cat == "tensor" else None
            grad0 = src.grad if cat == "tensor" else None
            if maker == "tensor":
                r = mg.tensor(src, copy=copy, ndmin=n)
            elif maker == "Tensor":
                r = mg.Tensor(src, copy=copy, ndmin=n)
            else:
                r = mg.astensor(src)
                n = 0
            k = int(n) if not isinstance(n, int) else n
            return src, cat, r, k, creator0, grad0

        for p in engine.explore(body, max_paths=60, max_seconds=60, catch=(Exception,)):
            res["paths"] += 1
            if p.exc is not None:
                # NumPy itself rejects negative ndmin for np.array: compare with numpy's behaviour
                msg = "%s: %s" % (type(p.exc).__name__, str(p.exc)[:100])
                try:
                    vals = [d for d in p.decisions if d[0] == "i"]
                    k = vals[-1][1] if vals else None
                    src, cat = _make_src(mg, skind, symbolic=False)
                    np.array(src.data if cat == "tensor" else src, ndmin=k if k is not None else 0)
                    findings.append("%s(%s, copy=%s, ndmin=%s) raised %s but numpy.array accepts it" % (maker, skind, copy, k, msg))
                except Exception:
                    pass
                continue
            src, cat, r, k, creator0, grad0 = p.out
            raw = src.data if cat == "tensor" else src
            want = np.array(raw, dtype=object if cat in ("array", "tensor") else None, ndmin=max(k, 0))
            tag = "%s(%s, copy=%s, ndmin=%s)" % (maker, skind, copy, k)
            if r.shape != want.shape:
                findings.append("%s: shape %s, numpy.array gives %s" % (tag, r.shape, want.shape))
                continue
            if cat in ("array", "tensor"):
                if [t.uid for t in terms_of(r.data)] != [t.uid for t in terms_of(want)]:
                    findings.append("%s: values differ from the source" % tag)
                shares = np.shares_memory(r.data, raw)
                expect_share = (copy is False) or maker == "astensor"
                if shares != expect_share:
                    findings.append("%s: shares memory with the source = %s, expected %s" % (tag, shares, expect_share))
                # write probe: fresh symbols into the source
                fresh = symarr("f", np.shape(raw))
                if isinstance(raw, np.ndarray) and raw.flags.writeable:
                    raw[...] = fresh
                    saw = [t.uid for t in terms_of(r.data)] == [t.uid for t in terms_of(np.array(fresh, ndmin=max(k, 0)))]
                    if saw != expect_share:
                        findings.append("%s: later changes of the source are %sseen by the result" % (tag, "" if saw else "not "))
            if cat == "tensor" and (copy is False or maker == "astensor") and maker in ("tensor", "astensor"):
                if k <= src.ndim:
                    if r is not src:
                        findings.append("%s: a tensor with matching dtype/constant is not returned as is" % tag)
                    elif r.creator is not creator0 or (grad0 is not None and r.grad is None):
                        findings.append("%s: graph or gradient not intact" % tag)
            res["unsat"] += 1
    if findings:
        res["status"] = common.VIOLATION
        res["violations"].append({"signature": "ndmin:%s" % findings[0][:50], "replay": _replay_generic(spec["name"], findings[0]), "summary": "; ".join(findings[:3])})
        if res["violations"][-1]["replay"] is None:
            res["violations"].pop()
            res["status"] = common.INCONCLUSIVE
            res["notes"].append("unconfirmed: %s" % findings[:2])
    res["sample"] = {"maker": maker, "source": skind, "ndmin": "symbolic integer in [-1, 4]"}
    return res


def _replay_generic(name, what):
    """the concrete aliasing table below is the float replay of the symbolic-ndmin findings"""
    src = '''import sys
import numpy as np
import mygrad as mg
bad = []
for maker in ("tensor", "Tensor"):
    for kind in ("array", "array0d", "tensor"):
        for copy in (True, False):
            for k in (-1, 0, 1, 2, 3, 4):
                raw = np.array([1.5, -2.0]) if kind != "array0d" else np.array(2.5)
                src = mg.Tensor(raw) if kind == "tensor" else raw
                try:
                    r = getattr(mg, maker)(src, copy=copy, ndmin=k)
                except Exception as e:
                    try:
                        np.array(raw, ndmin=k); bad.append((maker, kind, copy, k, "raised", type(e).__name__))
                    except Exception: pass
                    continue
                d = src.data if kind == "tensor" else src
                want = np.array(d, ndmin=max(k, 0))
                if r.shape != want.shape or not np.array_equal(r.data, want): bad.append((maker, kind, copy, k, "shape/values", r.shape, want.shape))
                if np.shares_memory(r.data, d) != (copy is False): bad.append((maker, kind, copy, k, "aliasing", bool(np.shares_memory(r.data, d))))
print(bad)
print('REPRODUCED' if bad else 'NOT-REPRODUCED'); sys.exit(1 if bad else 0)
'''
    path = common.write_replay(PROP, gradcase._safe(name), src)
    ok, out = common.run_replay(path)
    return path if ok else None


class _ArrayProtocol:
    """a container handing out its own storage through __array__ (as a pandas Series / xarray DataArray does)"""

    def __init__(self, values):
        self._values = values

    def __array__(self, dtype=None, copy=None):
        if copy:
            return np.array(self._values, dtype=dtype, copy=True)
        return np.asarray(self._values, dtype=dtype)


def run_alias(spec, tier, mg):
    """concrete enumeration of the aliasing / pass-through rule table"""
    res = common.new_result()
    findings = []
    n = 0
    f32, f64 = np.float32, np.float64
    makers = {
        "tensor": lambda x, **k: mg.tensor(x, **k), "Tensor": lambda x, **k: mg.Tensor(x, **k),
        "astensor": lambda x, **k: mg.astensor(x, **{kk: v for kk, v in k.items() if kk in ("dtype", "constant")}),
        "asarray": lambda x, **k: mg.asarray(x, **{kk: v for kk, v in k.items() if kk in ("dtype",)}),
    }
    for mname, mk in makers.items():
        for skind in ("array", "tensor", "tensor-graph", "tensor-grad", "list", "scalar", "array0d", "int-array", "array-T", "array-strided", "array-F", "tensor-T",
                      "buffer-array.array", "buffer-memoryview", "array-protocol-object"):
            for copy in (None, True, False):
                if mname in ("astensor", "asarray") and copy is not None:
                    continue
                for dtype in (None, "same", "other"):
                    for constant in (None, True, False):
                        if mname == "asarray" and constant is not None:
                            continue
                        lib.reset_state()
                        raw = {"array": np.array([1.0, 2.0]), "array0d": np.array(2.0), "int-array": np.array([1, 2]),
                               "array-T": np.arange(6.0).reshape(2, 3).T, "tensor-T": np.arange(6.0).reshape(2, 3).T, "array-strided": np.arange(6.0)[::2],
                               "array-F": np.asfortranarray(np.arange(6.0).reshape(2, 3))}.get(skind, np.array([1.0, 2.0]))
                        if skind == "buffer-array.array":
                            import array as _array

                            src = _array.array("d", [1.0, 2.0])
                            raw = np.frombuffer(src, dtype=float)
                        elif skind == "buffer-memoryview":
                            raw = np.array([1.0, 2.0])
                            src = memoryview(raw)
                        elif skind == "array-protocol-object":
                            raw = np.array([1.0, 2.0])
                            src = _ArrayProtocol(raw)
                        elif skind == "list":
                            src = [1.0, 2.0]
                        elif skind == "scalar":
                            src = 2.0
                        elif skind.startswith("tensor"):
                            src = mg.Tensor(raw)
                            raw = src.data
                            if skind == "tensor-graph":
                                src = src * 1.0
                                raw = src.data
                            if skind == "tensor-grad":
                                (src * 2.0).sum().backward()
                        else:
                            src = raw
                        sdt = raw.dtype
                        dt = None if dtype is None else (sdt if dtype == "same" else (f32 if sdt != f32 else f64))
                        if skind == "int-array" and constant is False:
                            continue
                        kw = {}
                        if copy is not None:
                            kw["copy"] = copy
                        if dt is not None:
                            kw["dtype"] = dt
                        if constant is not None:
                            kw["constant"] = constant
                        n += 1
                        tag = "%s(%s, %s)" % (mname, skind, ", ".join("%s=%s" % (a, getattr(b, "__name__", b)) for a, b in kw.items()))
                        try:
                            r = mk(src, **kw)
                        except Exception as e:
                            findings.append("%s raised %s: %s" % (tag, type(e).__name__, str(e)[:80]))
                            continue
                        rd = r.data if isinstance(r, mg.Tensor) else r
                        want_dt = np.dtype(dt) if dt is not None else (raw.dtype if skind not in ("list", "scalar") else np.dtype(float))
                        if rd.dtype != want_dt:
                            findings.append("%s: dtype %s, expected %s" % (tag, rd.dtype, want_dt))
                        has_mem = skind not in ("list", "scalar")
                        reuse = (copy is False) or mname in ("astensor", "asarray")
                        dtype_ok = dt is None or np.dtype(dt) == raw.dtype
                        if has_mem:
                            shares = bool(np.shares_memory(rd, raw))
                            expect = reuse and dtype_ok
                            if shares != expect:
                                findings.append("%s: shares memory with its input = %s, expected %s" % (tag, shares, expect))
                            if not shares and raw.flags.writeable:
                                before = np.array(rd, copy=True)
                                raw[...] = 77
                                if not np.array_equal(rd, before):
                                    findings.append("%s: a later change of the input is seen by the result" % tag)
                        if isinstance(src, mg.Tensor) and mname in ("tensor", "astensor") and reuse:
                            match = dtype_ok and (constant is None or constant is src.constant)
                            if match and r is not src:
                                findings.append("%s: matching tensor not returned as is" % tag)
                            if match and r is src and skind == "tensor-grad" and r.grad is None:
                                findings.append("%s: gradient lost" % tag)
                            if match and r is src and skind == "tensor-graph" and r.creator is None:
                                findings.append("%s: graph lost" % tag)
                            if not match and r is src:
                                findings.append("%s: returned the input although dtype/constant do not match" % tag)
                        if isinstance(r, mg.Tensor) and constant is not None and r.constant is not constant:
                            findings.append("%s: constant flag %s" % (tag, r.constant))
                        if mname == "asarray" and isinstance(r, mg.Tensor):
                            findings.append("%s returned a Tensor" % tag)
    lib.reset_state()
    res["paths"] = n
    if findings:
        res["status"] = common.VIOLATION
        res["violations"].append({"signature": "alias:%s" % findings[0][:60], "replay": None, "summary": "; ".join(sorted(set(findings))[:4])})
    res["sample"] = {"cells": n}
    return res


def run_detach(spec, tier, mg):
    res = common.new_result()
    findings = []
    n = 0
    for with_graph in (False, True):
        for with_grad in (False, True):
            for const in (False, True):
                lib.reset_state()
                t = mg.Tensor(np.array([1.0, 2.0, 3.0]), constant=const)
                if with_graph:
                    t = t * 1.0
                if with_grad and not const:
                    (t * 2.0).sum().backward()
                    if with_graph:
                        continue
                keep = t * 3.0 if with_graph else None  # t has a recorded consumer
                ops0 = set(t._ops)
                for what in ("copy", "copy-const", "astype", "astype-same-nocopy", "astype32"):
                    n += 1
                    if what == "copy":
                        r = t.copy()
                    elif what == "copy-const":
                        r = t.copy(constant=True)
                    elif what == "astype":
                        r = t.astype(np.float64)
                    elif what == "astype-same-nocopy":
                        r = t.astype(np.float64, copy=False)
                    else:
                        r = t.astype(np.float32)
                    tag = "%s on tensor(graph=%s, grad=%s, constant=%s)" % (what, with_graph, with_grad, const)
                    if what == "astype-same-nocopy":
                        if r is not t:
                            findings.append("%s: expected the tensor itself" % tag)
                        continue
                    if r is t:
                        findings.append("%s returned the tensor itself" % tag)
                        continue
                    if r.creator is not None or r._ops or r.base is not None:
                        findings.append("%s: result is attached to a graph" % tag)
                    if np.shares_memory(r.data, t.data):
                        findings.append("%s: result shares memory with the original" % tag)
                    if not np.array_equal(r.data, t.data.astype(r.dtype)):
                        findings.append("%s: values differ" % tag)
                    if set(t._ops) != ops0:
                        findings.append("%s: recorded a consumer on the original" % tag)
                    if what == "copy" and with_grad and not const:
                        if r.grad is None or not np.array_equal(r.grad, t.grad) or np.shares_memory(r.grad, t.grad):
                            findings.append("%s: gradient not copied independently" % tag)
                    if what == "copy-const" and r.constant is not True:
                        findings.append("%s: constant override ignored" % tag)
                    if what == "copy" and r.constant is not t.constant:
                        findings.append("%s: constant flag changed" % tag)
                    r.data[...] = -5.0
                    if np.any(t.data == -5.0):
                        findings.append("%s: writing to the result changed the original" % tag)
    lib.reset_state()
    res["paths"] = n
    if findings:
        res["status"] = common.VIOLATION
        res["violations"].append({"signature": "detach:%s" % findings[0][:60], "replay": None, "summary": "; ".join(sorted(set(findings))[:4])})
    res["sample"] = {"cells": n}
    return res


def run_creation(spec, tier, mg):
    """creation routines vs their NumPy namesakes (same explicit arguments); zeros/ones/empty default to float32"""
    res = common.new_result()
    findings = []
    n = 0
    shapes = [(), (3,), (2, 3), (0,), 4, (2, 0)]
    dts = [None, np.float32, np.float64, np.int64, np.int8, bool, np.float16]
    for f in ("zeros", "ones", "empty"):
        for shp in shapes:
            for dt in dts:
                n += 1
                kw = {} if dt is None else {"dtype": dt}
                r = getattr(mg, f)(shp, **kw)
                w = getattr(np, f)(shp, **(kw or {"dtype": np.float32}))
                if r.shape != w.shape or r.dtype != w.dtype or (f != "empty" and not np.array_equal(r.data, w)):
                    findings.append("mg.%s(%s, %s): %s/%s, numpy (float32 default): %s/%s" % (f, shp, kw, r.shape, r.dtype, w.shape, w.dtype))
    for shp in shapes:
        for fill in (2, 2.5, True):
            for dt in (None, np.float32, np.int64):
                n += 1
                kw = {} if dt is None else {"dtype": dt}
                r = mg.full(shp, fill, **kw)
                w = np.full(shp, fill, **kw)
                if r.shape != w.shape or r.dtype != w.dtype or not np.array_equal(r.data, w):
                    findings.append("mg.full(%s, %s, %s): %s/%s vs numpy %s/%s" % (shp, fill, kw, r.shape, r.dtype, w.shape, w.dtype))
    protos = [np.array([[1.0, 2.0], [3.0, 4.0]], dtype=np.float32), np.array([1, 2, 3]), np.array(2.0), mg.tensor([[1.0, 2.0]]), [1.0, 2.0], np.ones((2, 3)).T]
    for f in ("zeros_like", "ones_like", "empty_like"):
        for pr in protos:
            # (valid option values that are falsy - (), 0, [] - are included on purpose)
            for kw in ({}, {"dtype": np.float64}, {"shape": (3,)}, {"dtype": np.int8, "shape": (2, 1)}, {"shape": ()}, {"shape": 0}, {"shape": []},
                       {"shape": (0,)}, {"shape": 2}, {"shape": (0, 3), "dtype": np.float32}):
                n += 1
                raw = pr.data if isinstance(pr, mg.Tensor) else pr
                try:
                    w = getattr(np, f)(raw, **kw)
                except Exception:
                    continue
                try:
                    r = getattr(mg, f)(pr, **kw)
                except Exception as e:
                    findings.append("mg.%s(%s, %s) raised %s" % (f, type(pr).__name__, kw, type(e).__name__))
                    continue
                if r.shape != w.shape or r.dtype != w.dtype or (f != "empty_like" and not np.array_equal(r.data, w)):
                    findings.append("mg.%s(%s, %s): %s/%s vs numpy %s/%s" % (f, type(pr).__name__, kw, r.shape, r.dtype, w.shape, w.dtype))
    for pr in protos:
        for fill in (3, 1.5, 0, 0.0, False):
            for kw in ({}, {"dtype": np.float32}, {"shape": (2,)}, {"shape": ()}, {"shape": 0}, {"shape": []}, {"shape": (0, 2)}):
                n += 1
                raw = pr.data if isinstance(pr, mg.Tensor) else pr
                try:
                    w = np.full_like(raw, fill, **kw)
                except Exception:
                    continue
                r = mg.full_like(pr, fill, **kw)
                if r.shape != w.shape or r.dtype != w.dtype or not np.array_equal(r.data, w):
                    findings.append("mg.full_like(%s, %s, %s): %s/%s vs numpy %s/%s" % (type(pr).__name__, fill, kw, r.shape, r.dtype, w.shape, w.dtype))
    ar_args = [(5,), (2, 7), (1, 10, 3), (0.0, 1.0, 0.25), (5.0,), (3, 0), (10, 2, -3), (0, 1, 0.3), (0,), (0, 0), (0.0,), (0, 5, 1)]
    for a in ar_args:
        for dt in (None, np.float32, np.int64):
            n += 1
            kw = {} if dt is None else {"dtype": dt}
            try:
                w = np.arange(*a, **kw)
            except Exception:
                continue
            r = mg.arange(*a, **kw)
            if r.shape != w.shape or r.dtype != w.dtype or not np.array_equal(r.data, w):
                findings.append("mg.arange(%s, %s): %s/%s vs numpy %s/%s" % (a, kw, r.shape, r.dtype, w.shape, w.dtype))
    for f in ("linspace", "logspace", "geomspace"):
        arr_ends = (([1.0, 2.0], [3.0, 5.0]), (np.array([[1.0], [2.0]]), 4.0), (1.0, [2.0, 3.0, 4.0]))
        for a in ((1.0, 8.0), (1, 100), (2.0, 2.0)) + arr_ends:
            for kw in ({}, {"num": 5}, {"num": 1}, {"num": 4, "endpoint": False}, {"num": 3, "dtype": np.float32}, {"num": 0},
                       # array-like end points: where the new axis goes
                       {"num": 3, "axis": 1}, {"num": 3, "axis": -1}, {"num": 2, "axis": 0}) + (({"num": 3, "base": 3.0}, {"num": 3, "base": 3.0, "axis": -1}) if f == "logspace" else ()):
                if "axis" in kw and not any(a is e for e in arr_ends):
                    continue
                n += 1
                try:
                    w = getattr(np, f)(*a, **kw)
                except Exception:
                    continue
                try:
                    r = getattr(mg, f)(*a, **kw)
                except Exception as e:
                    findings.append("mg.%s(%s, %s) raised %s" % (f, a, kw, type(e).__name__))
                    continue
                if r.shape != w.shape or r.dtype != w.dtype or not np.allclose(r.data, w, equal_nan=True):
                    findings.append("mg.%s(%s, %s): %s/%s vs numpy %s/%s" % (f, a, kw, r.shape, r.dtype, w.shape, w.dtype))
    for a, kw in (((3,), {}), ((2, 4), {}), ((3,), {"k": 1}), ((3, 2), {"k": -1}), ((2,), {"dtype": np.float32}), ((0,), {})):
        n += 1
        r, w = mg.eye(*a, **kw), np.eye(*a, **kw)
        if r.shape != w.shape or r.dtype != w.dtype or not np.array_equal(r.data, w):
            findings.append("mg.eye(%s, %s) vs numpy" % (a, kw))
    for a, kw in (((3,), {}), ((1,), {"dtype": np.int64}), ((0,), {})):
        n += 1
        r, w = mg.identity(*a, **kw), np.identity(*a, **kw)
        if r.shape != w.shape or r.dtype != w.dtype or not np.array_equal(r.data, w):
            findings.append("mg.identity(%s, %s) vs numpy" % (a, kw))
    lib.reset_state()
    res["paths"] = n
    if findings:
        res["status"] = common.VIOLATION
        res["violations"].append({"signature": "creation:%s" % findings[0][:60], "replay": None, "summary": "; ".join(sorted(set(findings))[:4])})
    res["sample"] = {"calls": n}
    return res


def run_dtype_gate(spec, tier, mg):
    res = common.new_result()
    findings = []
    n = 0
    bad_inputs = [np.array([1 + 2j]), np.array(["a"]), np.array([object()], dtype=object), np.array([np.datetime64("2020-01-01")]),
                  np.array([np.timedelta64(1, "s")]), np.array(np.timedelta64(3)), np.array([b"ab"]), np.array([(1, 2.0)], dtype=[("a", "i4"), ("b", "f8")])]
    for a in bad_inputs:
        for mk in (mg.tensor, mg.Tensor, mg.astensor):
            n += 1
            try:
                mk(a)
                findings.append("%s accepted dtype %s while tracking" % (mk.__name__, a.dtype))
            except TypeError:
                pass
            except Exception as e:
                findings.append("%s(dtype %s) raised %s, not TypeError" % (mk.__name__, a.dtype, type(e).__name__))
    for dt in (complex, np.complex64, "U3", "m8[s]", "M8[D]", "S2"):
        for f in (lambda: mg.zeros((2,), dtype=dt), lambda: mg.tensor([1.0], dtype=dt), lambda: mg.tensor([1.0]).astype(dt)):
            n += 1
            try:
                f()
                findings.append("dtype=%s accepted while tracking" % (dt,))
            except (TypeError, ValueError):
                pass
    with mg.no_autodiff:
        n += 1
        try:
            r = mg.tensor(np.array([1 + 2j]))
            if r.dtype.kind != "c":
                findings.append("complex data altered inside no_autodiff")
        except Exception as e:
            findings.append("complex tensor rejected inside no_autodiff (%s)" % type(e).__name__)
    lib.reset_state()
    res["paths"] = n
    if findings:
        res["status"] = common.VIOLATION
        res["violations"].append({"signature": "dtype-gate:%s" % findings[0][:60], "replay": None, "summary": "; ".join(sorted(set(findings))[:4])})
    res["sample"] = {"checks": n}
    return res


CONCRETE = {"alias": run_alias, "detach": run_detach, "creation": run_creation, "dtype-gate": run_dtype_gate}


def run_case(spec, tier):
    mg = common._WORKER["mg"]
    if spec["kind"] == "ndmin":
        return run_ndmin(spec, tier, mg)
    # dtype / identity facts are observed on the UNPATCHED library (child process without the np proxy)
    import json
    import os
    import subprocess

    env = dict(os.environ)
    env["PYTHONPATH"] = common.VERIF
    p = subprocess.run([sys.executable, "-m", "harness.C17", "--concrete-child", spec["kind"], tier], capture_output=True, text=True, env=env,
                       cwd=common.VERIF, timeout=600)
    for line in (p.stdout or "").splitlines():
        if line.startswith("C17-CHILD-JSON:"):
            res = json.loads(line[len("C17-CHILD-JSON:"):])
            for v in res.get("violations", []):
                code = "import sys\n# concrete finding on the unpatched library (child process of the C17 check):\nprint(%r)\nprint('REPRODUCED'); sys.exit(1)\n" % (v["summary"],)
                v["replay"] = common.write_replay(PROP, gradcase._safe(spec["name"]), code)
            return res
    r = common.new_result(status=common.INCONCLUSIVE)
    r["notes"].append("concrete child failed: %s" % ((p.stderr or "")[-500:]))
    return r


def _child(kind, tier):
    import json

    mg = lib.load(symbolic=False)
    res = CONCRETE[kind]({"kind": kind, "name": kind}, tier, mg)
    print("C17-CHILD-JSON:" + json.dumps(res, default=str))


def main(argv=None):
    args = common.parse_args(argv)
    cs = cases(args.tier)
    if args.only:
        cs = [c for c in cs if args.only in c["name"]]
    describe = dict(
        level="other",
        rule="(ndmin) makers {tensor, Tensor, astensor} x sources {array, 0-d array, nested list, scalar, tensor, tensor with graph, tensor with grad} x copy, "
             "ndmin a symbolic integer in [-1, 4]; (table; sources also: transposed / strided / F-ordered arrays, tensor over a transposed array, array.array, memoryview, object with __array__) makers x sources x copy x dtype {None, same, other} x constant; copy/astype on tensors with/without "
             "graph and gradient; creation routines with explicit arguments vs NumPy; non-real dtypes",
        explanation="symbolic part: ndmin is an unbounded-type SymInt restricted to [-1,4]: the comparisons of tensor()/Tensor.__init__ on ndmin fork in the "
                    "engine and each path is compared with numpy.array(..., ndmin=k); the aliasing probe writes fresh SYMBOLS into the source and decides by term "
                    "identity whether the result saw them. Everything else is configuration enumeration on concrete arrays (dtype, pass-through identity, "
                    "detachment, creation routines), as DESIGN states",
        functions=["mygrad.tensor_base.tensor", "astensor", "asarray", "Tensor.__init__", "Tensor.copy", "Tensor.astype", "mygrad.tensor_creation.funcs.*"],
        bounds={"ndmin": "[-1, 4]", "shapes": "<= (2,3)"},
        assumptions=["NumPy's own array()/asarray() as reference"], outside=["order=/like= arguments", "subok"],
    )
    return common.main(PROP, "harness.C17", cs, args.tier, args.seed, describe, deadline_s=600)


if __name__ == "__main__":
    if len(sys.argv) > 1 and sys.argv[1] == "--concrete-child":
        _child(sys.argv[2], sys.argv[3])
        sys.exit(0)
    sys.exit(main())
