"""Dtype lane (DESIGN §1.6): degenerate symbolic execution – every variable is a selector (dtype, operand kind),
run with ordinary concrete arrays against the UNPATCHED library, asserting only dtype / shape / type facts.
Stand-alone: executed by /venv/bin/python with PYTHONPATH=/repo/src; prints one JSON document.

modes:
  grads   (C14): every C02 case body with float16/32/64 leaves -> each stored gradient is an ndarray of the tensor's shape and dtype
  forward (C03): result dtype/shape of mg.f(...) vs np.f(...) over operand kinds x dtypes
"""
import json
import sys
import warnings

import numpy as np

warnings.filterwarnings("ignore")
np.seterr(all="ignore")


def _env():
    import mygrad as mg
    import mygrad.nnet as nnet
    from mygrad.nnet import activations, layers, losses

    env = {"mg": mg, "np": np, "nnet": nnet, "Tensor": mg.Tensor}
    for m in (activations, layers, losses):
        for n in m.__all__:
            env[n] = getattr(m, n)
    return env


def grads_mode(cases):
    import mygrad as mg

    out = {"checked": 0, "findings": [], "skipped": 0, "samples": []}
    rng = np.random.RandomState(0)
    for spec in cases:
        nleaves = len(spec.get("leaves", []))
        # uniform precision, and MIXED precision (first leaf float64 / the rest float32, and the reverse) for cases with >= 2 leaves
        modes = ["float16", "float32", "float64"] + (["float64+float32", "float32+float64"] if nleaves >= 2 else [])
        for dt_mode in modes:
            dts = [dt_mode] * max(nleaves, 1) if "+" not in dt_mode else [dt_mode.split("+")[0]] + [dt_mode.split("+")[1]] * (nleaves - 1)
            dt = dts[0]
            env = _env()
            try:
                for name, shape in spec.get("carrs", []):
                    env[name] = np.asarray(rng.rand(*shape) * 0.5 + 0.25).astype(dt)
                if spec.get("setup"):
                    exec(spec["setup"], env)
                leaves = {}
                for li, ent in enumerate(spec.get("leaves", [])):
                    name, shape = ent[0], tuple(ent[1])
                    a = np.asarray(rng.rand(*shape) * 0.5 + 0.25).astype(dts[li])
                    if len(ent) > 2 and ent[2] == "F" and len(shape) >= 2:
                        a = np.asfortranarray(a)
                    leaves[name] = mg.Tensor(a)
                    env[name] = leaves[name]
                exec(spec["body"], env)
                o = env["out"]
                if o.constant:
                    out["skipped"] += 1
                    continue
                o.backward()
            except Exception as e:  # a case that does not run for this dtype is not a dtype fact
                out["skipped"] += 1
                continue
            out["checked"] += 1
            tens = dict(leaves)
            tens["out"] = o
            for n, t in tens.items():
                g = t.grad
                if g is None:
                    continue
                bad = None
                if type(g) is not np.ndarray:
                    bad = "type %s" % type(g).__name__
                elif g.shape != t.shape:
                    bad = "shape %s != %s" % (g.shape, t.shape)
                elif g.dtype != t.dtype:
                    bad = "dtype %s != %s" % (g.dtype, t.dtype)
                if bad:
                    out["findings"].append({"case": spec["name"], "dtype": dt_mode, "tensor": n, "what": bad, "body": spec["body"],
                                            "signature": "grad-%s:%s" % (bad.split()[0], spec["name"].split("/")[1] if "/" in spec["name"] else spec["name"])})
            if len(out["samples"]) < 3:
                out["samples"].append({"case": spec["name"], "dtype": dt_mode})
    return out


KINDS = ["pyint", "pyfloat", "pybool", "arr0d", "arr", "tensor"]
DTYPES = ["bool", "int8", "int64", "float16", "float32", "float64"]
UNARY_F = ["positive", "negative", "square", "exp", "log", "sin", "sqrt", "abs", "tanh", "reciprocal", "cbrt", "arctan", "log1p", "exp2"]
BINARY_F = ["add", "subtract", "multiply", "divide", "power", "maximum", "minimum", "arctan2", "logaddexp"]
SEQ_F = ["sum", "mean", "prod", "max", "min", "var", "std", "cumsum", "cumprod"]


def _mk(kind, dt, rng, shape=(2,)):
    if kind == "pyint":
        return 2
    if kind == "pyfloat":
        return 2.0
    if kind == "pybool":
        return True
    if dt == "bool":
        a = np.array([True, False][: int(np.prod(shape)) or 1]).reshape(shape) if shape else np.array(True)
    elif dt.startswith("int"):
        a = (np.arange(int(np.prod(shape)) or 1) + 1).reshape(shape).astype(dt)
    else:
        a = np.asarray(rng.rand(*shape) * 0.5 + 0.5).astype(dt)
    if kind == "arr0d":
        return np.array(a.reshape(-1)[0], dtype=dt)
    return a


def forward_mode(thorough):
    import mygrad as mg

    out = {"checked": 0, "findings": [], "skipped": 0, "samples": []}
    rng = np.random.RandomState(0)

    def compare(tag, fmg, fnp, sig):
        try:
            want = fnp()
        except Exception:
            out["skipped"] += 1
            return
        for track in (True, False):
            try:
                if track:
                    got = fmg()
                else:
                    with mg.no_autodiff:
                        got = fmg()
            except Exception as e:
                out["findings"].append({"case": tag, "what": "MyGrad raised %s where NumPy returns %s" % (type(e).__name__, np.asarray(want).dtype),
                                        "signature": sig + ":raises", "tracking": track})
                continue
            out["checked"] += 1
            gd = got.data if isinstance(got, mg.Tensor) else np.asarray(got)
            wd = np.asarray(want)
            if gd.dtype != wd.dtype:
                out["findings"].append({"case": tag, "what": "dtype %s, NumPy gives %s" % (gd.dtype, wd.dtype), "signature": sig + ":dtype", "tracking": track})
            elif gd.shape != wd.shape:
                out["findings"].append({"case": tag, "what": "shape %s, NumPy gives %s" % (gd.shape, wd.shape), "signature": sig + ":shape", "tracking": track})
            elif not np.array_equal(gd, wd, equal_nan=True):
                # namesakes call the same NumPy kernel on the same operands: the results are bit-identical, not merely close
                out["findings"].append({"case": tag, "what": "values %s, NumPy gives %s" % (np.asarray(gd).reshape(-1)[:4].tolist(), wd.reshape(-1)[:4].tolist()),
                                        "signature": sig + ":value", "tracking": track})
        if len(out["samples"]) < 4:
            out["samples"].append(tag)

    def wrap(v, kind):
        return mg.tensor(v) if kind == "tensor" else v

    def raw(v):
        return v

    # unary
    for f in UNARY_F:
        for dt in DTYPES:
            for kind in ("arr0d", "tensor"):
                a = _mk("arr" if kind == "tensor" else kind, dt, rng)
                compare("mg.%s(%s[%s])" % (f, kind, dt), lambda: getattr(mg, f)(wrap(a, kind)), lambda: getattr(np, f)(a), "unary:%s:%s" % (kind, dt))
                if thorough and dt.startswith("float"):
                    for od in ("float32", "float64"):
                        compare("mg.%s(%s[%s], dtype=%s)" % (f, kind, dt, od), lambda: getattr(mg, f)(wrap(a, kind), dtype=od),
                                lambda: getattr(np, f)(a, dtype=od), "unary-dtype=:%s:%s" % (kind, dt))
    # binary: tensor (left or right) with every operand kind / dtype
    for f in BINARY_F:
        for dt in DTYPES:
            t = _mk("arr", dt, rng)
            for kind in KINDS:
                for dt2 in (DTYPES if kind in ("arr0d", "arr", "tensor") else [None]):
                    if not thorough and kind in ("arr", "tensor") and dt2 not in (dt, "float32", "int64"):
                        continue
                    o = _mk("arr" if kind == "tensor" else kind, dt2 or "float64", rng)
                    kk = kind if kind.startswith("py") else "%s[%s]" % (kind, dt2)
                    sig = "binary:tensor[%s]:%s" % (dt, kind if kind.startswith("py") else "array")
                    compare("mg.%s(tensor[%s], %s)" % (f, dt, kk), lambda: getattr(mg, f)(mg.tensor(t), wrap(o, kind)), lambda: getattr(np, f)(t, o), sig)
                    compare("mg.%s(%s, tensor[%s])" % (f, kk, dt), lambda: getattr(mg, f)(wrap(o, kind), mg.tensor(t)), lambda: getattr(np, f)(o, t), sig)
    # operators and np-ufunc dispatch with Python scalars
    import operator

    for opname, op in (("+", operator.add), ("-", operator.sub), ("*", operator.mul), ("/", operator.truediv), ("**", operator.pow)):
        for dt in DTYPES:
            t = _mk("arr", dt, rng)
            for kind in ("pyint", "pyfloat", "pybool"):
                o = _mk(kind, None, rng)
                sig = "binary:tensor[%s]:%s" % (dt, kind)
                compare("tensor[%s] %s %s" % (dt, opname, kind), lambda: op(mg.tensor(t), o), lambda: op(t, o), sig)
                compare("%s %s tensor[%s]" % (kind, opname, dt), lambda: op(o, mg.tensor(t)), lambda: op(o, t), sig)
                if opname == "+":
                    compare("np.add(tensor[%s], %s)" % (dt, kind), lambda: np.add(mg.tensor(t), o), lambda: np.add(t, o), sig)
    # sequential
    for f in SEQ_F:
        for dt in DTYPES:
            a = _mk("arr", dt, rng, (2, 3) if dt != "bool" else (2,))
            for kw in ({}, {"axis": 0}, {"axis": -1, "keepdims": True}):
                if f.startswith("cum") and "keepdims" in kw:
                    continue
                compare("mg.%s(tensor[%s], %s)" % (f, dt, kw), lambda: getattr(mg, f)(mg.tensor(a), **kw), lambda: getattr(np, f)(a, **kw), "seq:%s:%s" % (f, dt))
    # dtype= together with out= (Tensor and ndarray targets): the loop runs in the requested dtype, the target only receives the result
    for f, nin in (("exp", 1), ("sqrt", 1), ("add", 2), ("multiply", 2), ("divide", 2), ("subtract", 2)):
        for dt, od in (("float32", "float64"), ("float16", "float32"), ("int8", "int64"), ("float64", "float32")):
            a = (np.array([100, 120, 7]) if dt == "int8" else rng.rand(3) * 3 + 0.1).astype(dt)
            b = (np.array([100, 90, 5]) if dt == "int8" else rng.rand(3) * 3 + 0.1).astype(dt)
            args_np = (a,) if nin == 1 else (a, b)
            for target in ("tensor", "ndarray"):
                mk_out = (lambda: mg.tensor(np.zeros(3, dtype=od))) if target == "tensor" else (lambda: np.zeros(3, dtype=od))
                compare("mg.%s(%s, out=<%s %s>, dtype=%s)" % (f, dt, target, od, od),
                        lambda: getattr(mg, f)(*[mg.tensor(v) for v in args_np], out=mk_out(), dtype=od),
                        lambda: getattr(np, f)(*args_np, out=np.zeros(3, dtype=od), dtype=od), "out+dtype:%s:%s:%s" % (f, dt, target))
                compare("np.%s(tensor %s, out=<%s %s>, dtype=%s)" % (f, dt, target, od, od),
                        lambda: getattr(np, f)(*[mg.tensor(v) for v in args_np], out=mk_out(), dtype=od),
                        lambda: getattr(np, f)(*args_np, out=np.zeros(3, dtype=od), dtype=od), "np-out+dtype:%s:%s:%s" % (f, dt, target))
    # reductions over larger low-precision operands (accumulation order and accumulator dtype show only here)
    for f in SEQ_F:
        for dt in ("float16", "float32"):
            a = (rng.rand(6, 7) * 30 + 1).astype(dt)
            for kw in ({}, {"axis": 0}, {"axis": 1, "keepdims": True}) + (({"axis": 1, "ddof": 1},) if f in ("var", "std") else ()):
                if f.startswith("cum") and "keepdims" in kw:
                    continue
                compare("mg.%s(tensor[%s (6,7)], %s)" % (f, dt, kw), lambda: getattr(mg, f)(mg.tensor(a), **kw), lambda: getattr(np, f)(a, **kw), "seq-large:%s:%s" % (f, dt))
                compare("tensor[%s (6,7)].%s(%s)" % (dt, f, kw), lambda: getattr(mg.tensor(a), f)(**kw), lambda: getattr(a, f)(**kw), "seq-large-method:%s:%s" % (f, dt))
    # manipulation / linalg on each dtype
    for dt in DTYPES:
        a = _mk("arr", dt, rng, (2, 3) if dt != "bool" else (2,))
        t = lambda: mg.tensor(a)
        progs = [("reshape", lambda: mg.reshape(t(), (-1,)), lambda: np.reshape(a, (-1,))), ("transpose", lambda: mg.transpose(t()), lambda: np.transpose(a)),
                 ("concatenate", lambda: mg.concatenate([t(), t()]), lambda: np.concatenate([a, a])), ("stack", lambda: mg.stack([t(), t()]), lambda: np.stack([a, a])),
                 ("repeat", lambda: mg.repeat(t(), 2), lambda: np.repeat(a, 2)), ("where", lambda: mg.where(a > 0, t(), t()), lambda: np.where(a > 0, a, a)),
                 ("getitem", lambda: t()[..., 0], lambda: a[..., 0]), ("squeeze", lambda: mg.squeeze(t()[None]), lambda: np.squeeze(a[None])),
                 ("broadcast_to", lambda: mg.broadcast_to(t(), (2,) + a.shape), lambda: np.broadcast_to(a, (2,) + a.shape)),
                 ("clip", lambda: mg.clip(t(), 0, 1), lambda: np.clip(a, 0, 1)), ("expand_dims", lambda: mg.expand_dims(t(), 0), lambda: np.expand_dims(a, 0)),
                 ("roll", lambda: mg.roll(t(), 1), lambda: np.roll(a, 1)), ("swapaxes", lambda: mg.swapaxes(t(), 0, -1), lambda: np.swapaxes(a, 0, -1))]
        if a.ndim == 2:
            progs += [("matmul", lambda: mg.matmul(t(), mg.tensor(a.T)), lambda: np.matmul(a, a.T)),
                      ("einsum", lambda: mg.einsum("ij,kj->ik", t(), t()), lambda: np.einsum("ij,kj->ik", a, a))]
            if dt.startswith("float"):
                progs += [("norm", lambda: mg.linalg.norm(t(), axis=1), lambda: np.linalg.norm(a, axis=1))]
        for name, fm, fn in progs:
            compare("mg.%s(tensor[%s])" % (name, dt), fm, fn, "manip:%s:%s" % (name, dt))
    return out


if __name__ == "__main__":
    mode = sys.argv[1]
    if mode == "grads":
        cases = json.load(sys.stdin)
        res = grads_mode(cases)
    else:
        res = forward_mode(len(sys.argv) > 2 and sys.argv[2] == "thorough")
    print("DTYPE-LANE-JSON:" + json.dumps(res))
