"""C08 level (b): Tensor-level memory-guard histories and their reference model (no solver imports: also used by the replays)."""
import gc
import itertools
import os

import numpy as np

VERIF = os.path.dirname(os.path.dirname(os.path.abspath(__file__)))


def _reset():
    import mygrad._utils.graph_tracking as gt
    import mygrad._utils.lock_management as lm

    gt.TRACK_GRAPH = True
    lm.MEM_GUARD = True
    gc.collect()
    lm._array_counter.clear()
    lm._array_tracker.clear()
    lm._views_waiting_for_unlock.clear()


# ------------------------------------------------------------------ (b) histories
# creation statements: (source, result name, arrays it involves, tensor inputs, requires)
CREATE = {
    "y": ("y = x * A", {"X", "A", "Y"}, ["x"], set()),
    "z": ("z = y + R", {"Y", "R", "Z"}, ["y"], {"y"}),
    "v": ("v = mg.multiply(x[:2], AV)", {"X", "A", "AV", "V"}, ["x"], set()),
    "o": ("o = mg.add(x, A, out=O)", {"X", "A", "O"}, ["x"], set()),
    "q": ("AV2 = A[1:]\nq = mg.multiply(x[1:], AV2)", {"X", "A", "AV2", "Q"}, ["x"], set()),
    "w": ("w = mg.matmul(B, x)", {"B", "X", "W"}, ["x"], set()),
    "u": ("u = mg.tensor(A, copy=False) * 2.0", {"A", "U"}, [], set()),
    # two graphs writing into rows of ONE pre-allocated buffer through out= views of it
    # (BV0, BV1 are NumPy views of BUF taken before anything is locked)
    "p": ("p = mg.add(x, A, out=BV0)", {"X", "A", "BUF", "BV0"}, ["x"], set()),
    "r": ("r = mg.multiply(x, A, out=BV1)", {"X", "A", "BUF", "BV1"}, ["x"], set()),
    # arrays whose own flag differs from their owner's: a view the caller made read-only (owner writeable), a writeable view whose
    # owner was made read-only afterwards, an array over a foreign buffer (its .base is not an ndarray)
    "a": ("a = mg.multiply(x[:2], AVRO)", {"X", "A2", "AVRO", "Aa"}, ["x"], set()),
    "b": ("b = mg.multiply(x[:2], RWV)", {"X", "R2", "RWV", "Bb"}, ["x"], set()),
    "f": ("f = mg.multiply(x[:2], FB)", {"X", "FB", "Ff"}, ["x"], set()),
    # in-place tensor updates inside the history: through a view that is dropped at once, through out= on temporaries, on the tensor itself
    "i": ("i = +x\niv = i[:2]\niv *= 2.0\ndel iv", {"X", "I"}, ["x"], set()),
    "g": ("g = x * 1.0\nmg.add(g[1:], 1.0, out=g[1:])", {"X", "G"}, ["x"], set()),
    "h": ("h = x * A\nh[:1] = 5.0", {"X", "A", "H"}, ["x"], set()),
    # in-place updates whose OPERAND is natively read-only (a user array, through item assignment and through out=)
    "j": ("j = x * A\nj[...] = R", {"X", "A", "R", "J"}, ["x"], set()),
    "k": ("k = x * A\nk += R", {"X", "A", "R", "K"}, ["x"], set()),
}
RESULT_ARRAY = {"y": "Y", "z": "Z", "v": "V", "o": "O", "q": "Q", "w": "W", "u": "U", "a": "Aa", "b": "Bb", "f": "Ff", "i": "I", "g": "G", "h": "H", "j": "J", "k": "K"}
RESULT_NAMES = set(RESULT_ARRAY.values()) - {"O"} | {"Gx"}
VIEW_OWNER = {"AV": "A", "AV2": "A", "BV0": "BUF", "BV1": "BUF", "AVRO": "A2", "RWV": "R2"}
NATIVE_RO = {"R", "R2", "AVRO"}


class Model:
    """reference model of graph liveness (independent of the lock tables)"""

    def __init__(self):
        self.ops = []  # dict(arrays, result, inputs, cleared)
        self.creator = {}  # tensor name -> op index
        self.live = {"x"}
        self.cleared_tensors = set()
        self.entered = set()

    def create(self, name):
        src, arrays, inputs, _ = CREATE[name]
        self.ops.append(dict(arrays=set(arrays), result=name, inputs=list(inputs), cleared=False))
        self.creator[name] = len(self.ops) - 1
        self.live.add(name)
        self.entered |= arrays

    def _upstream_ops(self, name, acc):
        i = self.creator.get(name)
        if i is None or i in acc:
            return
        acc.add(i)
        for t in self.ops[i]["inputs"]:
            self._upstream_ops(t, acc)

    def clear(self, name):
        acc = set()
        self._upstream_ops(name, acc)
        for i in acc:
            self.ops[i]["cleared"] = True
            self.cleared_tensors.add(self.ops[i]["result"])
            self.cleared_tensors.update(self.ops[i]["inputs"])
        self.cleared_tensors.add(name)

    def drop(self, name):
        self.live.discard(name)

    def _reachable(self, i):
        # op i is referenced if its result, or a result computed from it, is held by a live name
        res = self.ops[i]["result"]
        if res in self.live:
            return True
        for j, o in enumerate(self.ops):
            if res in o["inputs"] and not o["cleared"] and self._reachable(j):
                return True
        return False

    def _tainted(self, i):
        # an upstream tensor of op i has been cleared at some point
        for t in self.ops[i]["inputs"]:
            if t in self.cleared_tensors and t != "x":
                return True
            j = self.creator.get(t)
            if j is not None and (self.ops[j]["cleared"] or self._tainted(j)):
                return True
        return False

    def spec(self, arr):
        """'locked' | 'original' | None (unspecified)"""
        involved = [i for i, o in enumerate(self.ops) if arr in o["arrays"]]
        alive = [i for i in involved if not self.ops[i]["cleared"] and self._reachable(i)]
        if any(not self._tainted(i) for i in alive) and not ("x" in self.cleared_tensors and False):
            return "locked"
        if not alive:
            return "original"
        return None


def programs(tier):
    quick = tier == "quick"
    names = list(CREATE)
    out = []
    maxc = 2 if quick else 3
    for r in range(1, maxc + 1):
        for ci, combo in enumerate(itertools.permutations(names, r)):
            if r == 3 and ci % 3:
                continue  # stated bound: every third ordered triple of statements
            ok, have = True, set()
            for n in combo:
                if not CREATE[n][3] <= have:
                    ok = False
                    break
                have.add(n)
            if not ok:
                continue
            # up to one (quick) / two (thorough) mid-history events, inserted after any creation statement
            events = [None]
            for t in combo:
                events += ["%s.backward()" % t, "%s.clear_graph()" % t, "del %s" % t]
            events += ["FAIL", "x.clear_graph()"]
            for pos in range(1, len(combo) + 1):
                for ev in events:
                    if ev and ev.split(".")[0].replace("del ", "") in combo[pos:]:
                        continue  # refers to a tensor not yet created
                    base = []
                    for i, n in enumerate(combo):
                        base.append(("create", n))
                        if i + 1 == pos and ev:
                            base.append(("event", ev))
                    # final phase: release every remaining result, in every order, by del or clear_graph
                    remaining = [n for n in combo if ("event", "del %s" % n) not in base]
                    perms = list(itertools.permutations(remaining))
                    if quick and len(perms) > 2:
                        perms = perms[:1] + perms[-1:]
                    for perm in perms:
                        for how in itertools.product(("del", "clear"), repeat=len(perm)) if len(perm) <= 2 else [("del",) * len(perm), ("clear",) * len(perm)]:
                            out.append(base + [("release", n, h) for n, h in zip(perm, how)])
                    if ev is None:
                        break
                if pos == 1 and quick and len(combo) == 1:
                    continue
            # a failing operation whose exception object the caller keeps (its traceback keeps the failed Operation alive) while
            # the same arrays enter live graphs; the exception is dropped while those graphs are still alive
            if r <= 2:
                base = [("event", "FAILKEEP")] + [("create", n) for n in combo] + [("event", "DROPEXC")]
                for how in ("del", "clear"):
                    out.append(base + [("release", n, how) for n in combo])
                if r == 2:
                    out.append([("create", combo[0]), ("event", "FAILKEEP"), ("create", combo[1]), ("event", "DROPEXC")] + [("release", n, "del") for n in combo[::-1]])
    return out


def run_history(mg, prog):
    import mygrad._utils.lock_management as lm

    _reset()
    A = np.array([1.0, 2.0, 3.0])
    AV = A[:2]
    Rr = np.array([0.5, 0.25, 2.0])
    Rr.flags.writeable = False
    O = np.zeros(3)
    B = np.ones((2, 3))
    BUF = np.zeros((2, 3))
    x = mg.tensor([1.5, -2.0, 0.75])
    BV0, BV1 = BUF[0], BUF[1]
    A2 = np.array([4.0, 5.0, 6.0])
    AVRO = A2[:2]
    AVRO.flags.writeable = False
    R2 = np.array([7.0, 8.0, 9.0])
    RWV = R2[:2]
    R2.flags.writeable = False
    FB = np.frombuffer(bytearray(16), dtype=float)
    env = {"mg": mg, "np": np, "x": x, "A": A, "AV": AV, "R": Rr, "O": O, "B": B, "BUF": BUF, "BV0": BV0, "BV1": BV1,
           "A2": A2, "AVRO": AVRO, "R2": R2, "RWV": RWV, "FB": FB}
    original = {"A": True, "AV": True, "R": False, "O": True, "B": True, "AV2": True, "X": True, "BUF": True, "BV0": True, "BV1": True,
                "A2": True, "AVRO": False, "R2": False, "RWV": True, "FB": True}
    model = Model()
    trace = []

    def arrays():
        d = {"A": A, "AV": AV, "R": Rr, "O": O, "B": B, "BUF": BUF, "BV0": BV0, "BV1": BV1, "X": env["x"].data,
             "A2": A2, "AVRO": AVRO, "R2": R2, "RWV": RWV, "FB": FB}
        if "AV2" in env:
            d["AV2"] = env["AV2"]
        for t, a in RESULT_ARRAY.items():
            if t in env and a not in ("O",):
                d[a] = env[t].data
        return d

    def check(after):
        for name, arr in arrays().items():
            sp = "original" if name in NATIVE_RO else model.spec(name)
            if name in VIEW_OWNER and name not in NATIVE_RO:
                if name not in model.entered:
                    continue  # a view that never entered an operation is outside the property (NumPy flags are per array object)
                # a NumPy view's memory is its owner's: locked while the owner is, original only when both are
                spA = model.spec(VIEW_OWNER[name])
                sp = "locked" if "locked" in (sp, spA) else (sp if spA == "original" else None)
            if name in RESULT_NAMES:
                if sp == "locked" and arr.flags.writeable:
                    return "after `%s`: result array %s of a live graph is writeable" % (after, name)
                continue
            if name == "AV2" and "AV2" not in model.entered:
                continue
            if sp == "locked":
                if arr.flags.writeable:
                    return "after `%s`: array %s belongs to a live graph but is writeable" % (after, name)
                try:
                    arr[...] = 0
                    return "after `%s`: writing to locked array %s did not raise" % (after, name)
                except ValueError:
                    pass
            elif sp == "original":
                if bool(arr.flags.writeable) != original[name]:
                    return "after `%s`: no live graph refers to %s but its writeable flag is %s (original %s)" % (after, name, arr.flags.writeable, original[name])
        return None

    gc_was = gc.isenabled()
    gc.disable()
    try:
        for st in prog:
            if st[0] == "create":
                label = CREATE[st[1]][0].replace("\n", "; ")
                try:
                    exec(CREATE[st[1]][0], env)
                except Exception as e:  # every creation statement is a valid MyGrad call
                    return "`%s` raised %s: %s" % (label, type(e).__name__, str(e)[:120])
                model.create(st[1])
            elif st[0] == "event":
                ev = st[1]
                label = ev
                if ev == "FAILKEEP":
                    label = "mg.add(x, A, out=<wrong shape>) fails, exception kept"
                    try:
                        mg.add(env["x"], A, out=np.zeros(7))
                        return "the failing statement did not fail"
                    except ValueError as e:
                        env["_exc"] = e
                    try:
                        mg.multiply(env["x"], O, out=np.zeros(7))
                        return "the failing statement did not fail"
                    except ValueError as e:
                        env["_exc2"] = e
                elif ev == "DROPEXC":
                    label = "the kept exceptions are dropped"
                    env.pop("_exc", None)
                    env.pop("_exc2", None)
                elif ev == "FAIL":
                    label = "x + np.ones(7)  (fails)"
                    try:
                        env["x"] + np.ones(7)
                        return "the failing statement did not fail"
                    except ValueError:
                        pass
                elif ev.startswith("del "):
                    n = ev[4:]
                    del env[n]
                    model.drop(n)
                else:
                    n = ev.split(".")[0]
                    exec(ev, env)
                    model.clear(n)
            else:
                _, n, how = st
                label = ("del %s" % n) if how == "del" else ("%s.clear_graph()" % n)
                if how == "del":
                    if n in env:
                        del env[n]
                    model.drop(n)
                else:
                    if n in env:
                        env[n].clear_graph()
                    model.clear(n)
            trace.append(label)
            bad = check(label)
            if bad:
                return bad
        # quiescence: every result released -> nothing may stay locked, tables empty
        for n in list(RESULT_ARRAY):
            env.pop(n, None)
        env.pop("AV2", None) if False else None
        for name, arr in arrays().items():
            if name in RESULT_NAMES:
                continue
            if name in VIEW_OWNER and name not in model.entered:
                continue
            if bool(arr.flags.writeable) != original[name]:
                return "at quiescence: %s has writeable=%s, original %s" % (name, arr.flags.writeable, original[name])
        if lm._array_counter or any(r() is not None for r in lm._array_tracker.values()):
            return "at quiescence: lock tables are not empty (%d counters, %d tracked)" % (len(lm._array_counter), len(lm._array_tracker))
    finally:
        if gc_was:
            gc.enable()
        _reset()
    return None


def replay_history(prog):
    src = '''import sys, gc
import numpy as np
import mygrad as mg
sys.path.insert(0, %r)
from harness.c08_hist import run_history
r = run_history(mg, %r)
print(r)
print('REPRODUCED' if r else 'NOT-REPRODUCED'); sys.exit(1 if r else 0)
''' % (VERIF, prog)
    return src


