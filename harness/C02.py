"""C02 — each operation's backward is the exact VJP of its own forward (DESIGN §3 C02, Appendix B)."""
import itertools
import sys

from . import common, gradcase

PROP = "C02"

UNARY = ("positive negative reciprocal square exp exp2 expm1 log log2 log10 log1p sin cos tan arcsin arccos "
         "arctan sinh cosh tanh arcsinh arccosh arctanh sqrt cbrt abs absolute sinc csc sec cot arccsc arcsec arccot "
         "csch sech coth arccsch arccoth").split()
BINARY = "add subtract multiply divide true_divide power maximum minimum arctan2 logaddexp logaddexp2".split()
ZERO_AT_TIE = {"abs", "absolute", "maximum", "minimum", "arcsin", "arccos", "arccsc", "arcsec", "clip"}


REF_POW = "out = np.power(x, p)"


def C(name, body, leaves, **kw):
    d = dict(name=name, body=body, leaves=[list(x) for x in leaves])
    d.update(kw)
    return d


def cases(tier):
    T = tier == "thorough"
    cs = []
    import inspect

    from symnp import lib

    lib.ensure_path()
    import mygrad as mg

    def has_where(f):
        try:
            return "where" in inspect.signature(getattr(mg, f)).parameters
        except (TypeError, ValueError):
            return False
    # ------------------------------------------------------------------ unary ufuncs
    for f in UNARY:
        conv = "zero_at_tie" if f in ZERO_AT_TIE else None
        cs.append(C("u/%s/(2,)" % f, "out = mg.%s(x)" % f, [("x", (2,))], convention=conv))
        cs.append(C("u/%s/()" % f, "out = mg.%s(x)" % f, [("x", ())], convention=conv))
        if has_where(f):
            cs.append(C("u/%s/where+out" % f, "out = mg.%s(x, where=m, out=o)" % f, [("x", (3,))], carrs=[["o", [3]]],
                        setup="m = np.array([True, False, True])", convention=conv))
        if T:
            cs.append(C("u/%s/(2,2)F" % f, "out = mg.%s(x)" % f, [("x", (2, 2), "F")], convention=conv))
            cs.append(C("u/%s/empty" % f, "out = mg.%s(x)" % f, [("x", (0,))], convention=conv))
            cs.append(C("u/%s/np-ufunc" % f, "out = np.%s(x)" % ("abs" if f == "abs" else f), [("x", (2,))],
                        convention=conv) if isinstance(getattr(__import__("numpy"), f, None), __import__("numpy").ufunc) else
                      C("u/%s/(1,2)" % f, "out = mg.%s(x)" % f, [("x", (1, 2))], convention=conv))
    cs.append(C("u/abs/nan_to_num=False", "out = mg.abs(x, nan_to_num=False)", [("x", (2,))]))
    # ------------------------------------------------------------------ binary ufuncs
    pairs = [((2,), (2,)), ((2,), (1,)), ((), (2,)), ((2, 1), (1, 2))]
    if T:
        pairs += [((2, 2), (2,)), ((1,), (2, 1)), ((0,), (1,)), ((), ())]
    for f in BINARY:
        conv = "zero_at_tie" if f in ZERO_AT_TIE else None
        for a, b in pairs:
            cs.append(C("b/%s/%s,%s" % (f, a, b), "out = mg.%s(x, y)" % f, [("x", a), ("y", b)], convention=conv))
        cs.append(C("b/%s/same-operand" % f, "out = mg.%s(x, x)" % f, [("x", (2,))], convention=conv,
                    all_tied=f in ("maximum", "minimum")))
        cs.append(C("b/%s/tensor,scalar" % f, "out = mg.%s(x, 1.5)" % f, [("x", (2,))], convention=conv))
        cs.append(C("b/%s/scalar,tensor" % f, "out = mg.%s(0.75, x)" % f, [("x", (2,))], convention=conv))
        cs.append(C("b/%s/tensor,carr" % f, "out = mg.%s(x, c)" % f, [("x", (2,))], carrs=[["c", [2]]], convention=conv))
        cs.append(C("b/%s/where+out" % f, "out = mg.%s(x, y, where=m, out=o)" % f, [("x", (3,)), ("y", (1,))],
                    carrs=[["o", [3]]], setup="m = np.array([True, False, True])", convention=conv))
    # 0-d operands under a where= mask (the product with a 0-d mask is a NumPy scalar unless it is re-wrapped)
    cs.append(C("b/multiply/where-0d", "out = mg.multiply(x, y, where=m0)", [("x", ()), ("y", ())], setup="m0 = np.array(True)"))
    cs.append(C("u/exp/where-0d", "out = mg.exp(x, where=m0)", [("x", ())], setup="m0 = np.array(True)"))
    cs.append(C("b/add/where-0d+out", "out = mg.add(x, y, where=m0, out=o)", [("x", ()), ("y", ())], carrs=[["o", []]], setup="m0 = np.array(True)"))
    cs.append(C("b/multiply/where-0d-bcast", "out = mg.multiply(x, y, where=m)", [("x", ()), ("y", (2,))], setup="m = np.array([True, True])"))
    # masked-out elements may lie OUTSIDE the function's domain (that is what where= is for): only the selected elements are constrained
    for f, dom in (("log", "gt(x[[0, 2]], 0)"), ("sqrt", "gt(x[[0, 2]], 0)"), ("reciprocal", "ne(x[[0, 2]], 0)"), ("log2", "gt(x[[0, 2]], 0)"),
                   ("log1p", "gt(x[[0, 2]], -1)"), ("arcsin", "gt(x[[0, 2]], -1); lt(x[[0, 2]], 1)"), ("tan", None), ("cbrt", "ne(x[[0, 2]], 0)")):
        cs.append(C("u/%s/where-masked-outside-domain" % f, "out = mg.%s(x, where=m, out=o)" % f, [("x", (3,))], carrs=[["o", [3]]],
                    setup="m = np.array([True, False, True])", assume=dom, check_defined=True))
    cs.append(C("b/divide/where-masked-outside-domain", "out = mg.divide(x, y, where=m, out=o)", [("x", (3,)), ("y", (3,))], carrs=[["o", [3]]],
                setup="m = np.array([True, False, True])", assume="ne(y[[0, 2]], 0)", check_defined=True))
    # integer options given as NumPy integers / 0-d integer arrays instead of Python ints
    for nm, body, shp in (("repeat/int64", "out = mg.repeat(x, np.int64(2))", (3,)), ("repeat/int64-axis", "out = mg.repeat(x, np.int64(2), axis=np.int64(1))", (2, 2)),
                          ("repeat/0d-array", "out = mg.repeat(x, np.array(2), axis=0)", (2, 2)), ("repeat/uint8", "out = mg.repeat(x, np.uint8(3))", (2,)),
                          ("repeat/int64-zero", "out = mg.repeat(x, np.int64(0))", (2,)), ("roll/int64", "out = mg.roll(x, np.int64(1), axis=np.int64(0))", (3,)),
                          ("sum/axis-int64", "out = mg.sum(x, axis=np.int64(0))", (2, 2)), ("getitem/int64", "out = x[np.int64(1)]", (2, 2)),
                          ("expand_dims/int64", "out = mg.expand_dims(x, np.int64(0))", (2,)), ("swapaxes/int64", "out = mg.swapaxes(x, np.int64(0), np.int64(1))", (2, 3)),
                          ("cumsum/axis-int64", "out = mg.cumsum(x, axis=np.int64(1))", (2, 2)), ("max/axis-int64", "out = mg.max(x, axis=np.int64(-1))", (2, 2)),
                          ("var/ddof-int64", "out = mg.var(x, axis=0, ddof=np.int64(1))", (3, 2)), ("moveaxis/int64", "out = mg.moveaxis(x, np.int64(0), np.int64(-1))", (2, 3)),
                          ("squeeze/int64", "out = mg.squeeze(x[None], axis=np.int64(0))", (2,)), ("concatenate/axis-int64", "out = mg.concatenate([x, x], axis=np.int64(0))", (2,)),
                          ("stack/axis-int64", "out = mg.stack([x, x], axis=np.int64(1))", (2,)), ("reshape/int64", "out = mg.reshape(x, (np.int64(3), np.int64(2)))", (2, 3))):
        cs.append(C("npint/" + nm, body, [("x", shp)], assume="distinct(x)" if "max" in nm else None))
    # power special cases
    for e in ("2", "3", "-1", "0.5", "1", "0", "-2", "1.5"):
        cs.append(C("b/power/x**%s" % e, "out = x ** %s" % e, [("x", (2,))]))
    cs.append(C("b/power/2**x", "out = 2.0 ** x", [("x", (2,))]))
    # tensor exponents: the equality tests of the `** 1` / `** 2` shortcuts are decision points, and the function is smooth there
    # integer-valued exponents through the real Power op, base unrestricted (x = 0 is a decision point of its zero guards and the
    # function is smooth there): reference forward written as a polynomial
    cs.append(C("b/power/mg.power(x,1.0)", "out = mg.power(x, 1.0)", [("x", (2,))], smooth_at_ties=True, ref_body="out = x * 1"))
    cs.append(C("b/power/mg.power(x,2.0)", "out = mg.power(x, 2.0)", [("x", (2,))], smooth_at_ties=True, ref_body="out = x * x"))
    cs.append(C("b/power/mg.power(x,3.0)", "out = mg.power(x, 3.0)", [("x", (2,))], smooth_at_ties=True, ref_body="out = x * x * x"))
    cs.append(C("b/power/x**array[1,2]", "out = x ** E", [("x", (2,))], setup="E = np.array([1.0, 2.0])", smooth_at_ties=True,
                ref_body="out = np.array([x[0], x[1] * x[1]], dtype=object)"))
    cs.append(C("b/power/x**p0d", "out = x ** p", [("x", (2,)), ("p", ())], assume="gt(x, 0)", smooth_at_ties=True, ref_body=REF_POW))
    cs.append(C("b/power/x**p1d", "out = x ** p", [("x", (2,)), ("p", (2,))], assume="gt(x, 0)", smooth_at_ties=True, ref_body=REF_POW))
    cs.append(C("b/power/x0d**p0d", "out = x ** p", [("x", ()), ("p", ())], assume="gt(x, 0)", smooth_at_ties=True, ref_body=REF_POW))
    cs.append(C("b/power/mg.power(x,p0d)", "out = mg.power(x, p)", [("x", (2,)), ("p", ())], assume="gt(x, 0)", smooth_at_ties=True, ref_body=REF_POW))
    cs.append(C("b/rsub", "out = 3.0 - x", [("x", (2,))]))
    cs.append(C("b/rdiv", "out = 3.0 / x", [("x", (2,))]))
    # ------------------------------------------------------------------ sequential
    shapes = [((2, 3), [None, 0, 1, -1, (0, 1), (), (-1,), (-2, -1), (1, 0)]), ((3,), [None, 0, -1, (-1,)]), ((), [None])]
    if T:
        shapes += [((2, 1, 2), [None, 1, (0, 2), -3, (1,), (0, 1, 2)])]
    for f in ("sum", "mean", "prod", "var", "std", "max", "min", "amax", "amin"):
        for shp, axes in shapes:
            for ax in axes:
                if f in ("max", "min", "amax", "amin") and ax == ():
                    continue
                for kd in (False, True):
                    if kd and not T and shp != (2, 3):
                        continue
                    extra = ""
                    assume = None
                    if f in ("var", "std"):
                        for ddof in (0, 1):
                            if ddof and shp == ():
                                continue  # N - ddof = 0: NumPy itself returns nan
                            if ddof and not T and ax not in (None, 0):
                                continue
                            n = "s/%s/%s/axis=%s/kd=%s/ddof=%d" % (f, shp, ax, kd, ddof)
                            cs.append(C(n, "out = mg.%s(x, axis=%r, keepdims=%r, ddof=%d)" % (f, ax, kd, ddof),
                                        [("x", shp)], assume="distinct(x)" if f == "std" else None))
                        continue
                    if f == "prod":
                        assume = "ne(x, 0)"
                    n = "s/%s/%s/axis=%s/kd=%s" % (f, shp, ax, kd)
                    cs.append(C(n, "out = mg.%s(x, axis=%r, keepdims=%r)" % (f, ax, kd), [("x", shp)], assume=assume))
    for f in ("cumsum", "cumprod"):
        for shp, axes in (((2, 3), [None, 0, 1, -1]), ((3,), [None, 0]), ((), [None])):
            for ax in axes:
                cs.append(C("s/%s/%s/axis=%s" % (f, shp, ax), "out = mg.%s(x, axis=%r)" % (f, ax), [("x", shp)],
                            assume="ne(x, 0)" if f == "cumprod" else None))
    for f in ("sum", "prod", "max", "min", "cumsum", "cumprod"):
        for ax in (0, -1):
            cs.append(C("s/%s/()/axis=%d" % (f, ax), "out = mg.%s(x, axis=%d)" % (f, ax), [("x", ())],
                        assume="ne(x, 0)" if "prod" in f else None))
    cs.append(C("s/sum/()/axis=0/kd", "out = mg.sum(x, axis=0, keepdims=True)", [("x", ())]))
    cs.append(C("s/sum/method", "out = x.sum(axis=1)", [("x", (2, 2))]))
    cs.append(C("s/mean/method", "out = x.mean(axis=(0,1), keepdims=True)", [("x", (2, 2))]))
    cs.append(C("s/sum/F-layout", "out = mg.sum(x, axis=0)", [("x", (2, 3), "F")]))
    cs.append(C("s/add_sequence", "out = mg.add_sequence(x, y, x, c)", [("x", (2,)), ("y", (1,))], carrs=[["c", [2]]]))
    cs.append(C("s/multiply_sequence", "out = mg.multiply_sequence(x, y, x, c)", [("x", (2,)), ("y", (1,))],
                carrs=[["c", [2]]], assume="ne(x, 0); ne(y, 0); ne(c, 0)"))
    # ------------------------------------------------------------------ linalg
    mm = [((2, 3), (3, 2)), ((3,), (3,)), ((2, 3), (3,)), ((3,), (3, 2)), ((2, 1, 2), (2, 2))]
    if T:
        mm += [((2, 2, 2), (2, 2, 2)), ((1, 2, 2), (2, 2, 1)), ((2, 2), (2, 2, 2))]
    for a, b in mm:
        cs.append(C("l/matmul/%s@%s" % (a, b), "out = mg.matmul(x, y)", [("x", a), ("y", b)]))
    cs.append(C("l/matmul/operator", "out = x @ y", [("x", (2, 2)), ("y", (2, 2))]))
    cs.append(C("l/matmul/x@x", "out = x @ x", [("x", (2, 2))]))
    cs.append(C("l/multi_matmul", "out = mg.multi_matmul([x, y, z])", [("x", (2, 2)), ("y", (2, 3)), ("z", (3, 1))]))
    es = [
        ("ij,jk->ik", [(2, 3), (3, 2)]), ("ij->ji", [(2, 3)]), ("ii->i", [(3, 3)]), ("ii->", [(3, 3)]),
        ("ij,ij->", [(2, 2), (2, 2)]), ("i,i->i", [(3,), (3,)]), ("ijk,k->ij", [(2, 1, 2), (2,)]), ("ij->i", [(2, 3)]),
        ("ij,ij,ij->", [(2, 2), (2, 2), (2, 2)]), ("i,j->ij", [(2,), (3,)]), ("...i,i->...", [(2, 2), (2,)]),
        ("ij->", [(2, 2)]), ("i->", [(3,)]), ("ii", [(2, 2)]), ("ij,j", [(2, 2), (2,)]),
    ]
    for spec, shps in es:
        names = "xyz"[: len(shps)]
        cs.append(C("l/einsum/%s" % spec, "out = mg.einsum(%r, %s)" % (spec, ", ".join(names)),
                    [(n, s) for n, s in zip(names, shps)]))
    cs.append(C("l/einsum/ij,ij->/same", "out = mg.einsum('ij,ij->', x, x)", [("x", (2, 2))]))
    cs.append(C("l/einsum/i,i,i->/same3", "out = mg.einsum('i,i,i->', x, x, x)", [("x", (2,))]))
    cs.append(C("l/einsum/ij,jk->ik/same", "out = mg.einsum('ij,jk->ik', x, x)", [("x", (2, 2))]))
    # a tensor passed together with its OWN data array (a constant): the array contributes nothing although it is the same object as x.data.
    # The reference forward uses a separate constant c constrained to equal x (the path-wise terms cannot tell x from x.data)
    cs.append(C("l/einsum/i,i->/x,x.data", "out = mg.einsum('i,i->', x, x.data)", [("x", (2,))], carrs=[["c", [2]]], assume="eq(c, x)", smooth_at_ties=True,
                ref_body="out = (x * c).sum()"))
    cs.append(C("l/einsum/i,i->/x.data,x", "out = mg.einsum('i,i->', x.data, x)", [("x", (2,))], carrs=[["c", [2]]], assume="eq(c, x)", smooth_at_ties=True,
                ref_body="out = (x * c).sum()"))
    cs.append(C("l/einsum/i,i,i->/x.data,x,x", "out = mg.einsum('i,i,i->', x.data, x, x)", [("x", (2,))], carrs=[["c", [2]]], assume="eq(c, x)", smooth_at_ties=True,
                ref_body="out = (c * x * x).sum()"))
    cs.append(C("l/einsum/ij,ij->i/x,x.data", "out = mg.einsum('ij,ij->i', x, x.data)", [("x", (2, 2))], carrs=[["c", [2, 2]]], assume="eq(c, x)", smooth_at_ties=True,
                ref_body="out = (x * c).sum(axis=1)"))
    cs.append(C("b/multiply/x,x.data", "out = x * x.data", [("x", (2,))], carrs=[["c", [2]]], assume="eq(c, x)", smooth_at_ties=True, ref_body="out = x * c"))
    cs.append(C("s/multiply_sequence/x,x.data,x", "out = mg.multiply_sequence(x, x.data, x)", [("x", (2,))], carrs=[["c", [2]]], assume="eq(c, x)", smooth_at_ties=True,
                ref_body="out = x * c * x"))
    cs.append(C("l/matmul/x,x.data", "out = mg.matmul(x, x.data)", [("x", (2, 2))], carrs=[["c", [2, 2]]], assume="eq(c, x)", smooth_at_ties=True,
                ref_body="out = np.array([[sum(x[i, k] * c[k, j] for k in range(2)) for j in range(2)] for i in range(2)], dtype=object)"))
    cs.append(C("l/einsum/ii->i/x,y", "out = mg.einsum('ii,i->i', x, y)", [("x", (2, 2)), ("y", (2,))]))
    cs.append(C("l/einsum/optimize", "out = mg.einsum('ij,jk,kl->il', x, y, z, optimize=True)",
                [("x", (2, 2)), ("y", (2, 2)), ("z", (2, 1))]))
    for ord_ in (None, 1, 2, 3):
        for shp, ax in (((3,), None), ((2, 2), 0), ((2, 2), 1), ((2, 2), -1)):
            for kd in ((False, True) if T else (False,)):
                cs.append(C("l/norm/ord=%s/%s/axis=%s/kd=%s" % (ord_, shp, ax, kd),
                            "out = mg.linalg.norm(x, ord=%r, axis=%r, keepdims=%r)" % (ord_, ax, kd), [("x", shp)],
                            assume="ne(x, 0)"))
    # documented convention (nan_to_num=True, the default): zeros in x give a ZERO gradient - no domain assumption here; the definedness
    # obligation finds the points where the implementation leaves the reals, the float replay decides whether a gradient is non-finite there
    for ord_ in (None, 1, 3):
        cs.append(C("l/norm/ord=%s/zeros-allowed" % ord_, "out = mg.linalg.norm(x, ord=%r, axis=1)" % ord_, [("x", (2, 2))], check_defined=True))
    # ------------------------------------------------------------------ indexing
    gi = ["0", "-1", "1:", "::-1", "::2", "..., 0", "None", "1, 0", "0, ...", ":, 1:", "[0, 0, 1]", "[[0, 1], [1, 0]]",
          "m", "[1, 0], [0, 0]", "0, [2, 2, 1]", ":, idx", "mb", "...", "[-1, 0]"]
    for ix in gi:
        cs.append(C("i/getitem/[%s]" % ix, "out = x[%s]" % ix, [("x", (2, 3))],
                    setup="m = np.array([[True, False, True], [False, False, True]])\nidx = np.array([0, 0, 2])\n"
                          "mb = np.array([True, False])"))
    for dt in ("int8", "int16", "int32", "uint8", "uint16", "intp"):
        cs.append(C("i/getitem/idx-%s" % dt, "out = x[ix]", [("x", (3,))], setup="ix = np.array([2, 0, 0, 2], dtype=np.%s)" % dt))
        cs.append(C("i/getitem/idx-%s/mixed" % dt, "out = x[ix, 1:]", [("x", (2, 3))], setup="ix = np.array([1, 1, 0], dtype=np.%s)" % dt))
        cs.append(C("i/setitem/idx-%s" % dt, "z = +x\nz[ix] = y\nout = z", [("x", (3,)), ("y", (3,))], setup="ix = np.array([0, 0, 2], dtype=np.%s)" % dt))
    cs.append(C("i/getitem/idx-2d-int32", "out = x[ix]", [("x", (3,))], setup="ix = np.array([[0, 1], [1, 1]], dtype=np.int32)"))
    cs.append(C("i/getitem/idx-pair-mixed-dtypes", "out = x[ia, ib]", [("x", (2, 3))], setup="ia = np.array([0, 0, 1], dtype=np.int16)\nib = np.array([2, 2, 0], dtype=np.uint8)"))
    cs.append(C("i/getitem/1d/[idx]", "out = x[[2, 0, 0]]", [("x", (3,))]))
    cs.append(C("i/getitem/0d/[()]", "out = x[()]", [("x", ())]))
    cs.append(C("i/getitem/0d/[None]", "out = x[None]", [("x", ())]))
    si = [("0", (3,)), ("1:", (1, 3)), ("::-1", (2, 3)), ("..., 0", (2,)), ("1, 0", ()), (":, 1:", (2, 2)),
          ("[0, 0, 1]", (3, 3)), ("m", (3,)), ("[1, 0], [0, 0]", (2,)), ("0, [2, 2, 1]", (3,)), (":, idx", (2, 3)),
          ("mb", (1, 3)), ("...", (2, 3)), ("...", (3,)), ("...", ()), (":, 1:", (1,)), ("[0, 0, 1]", (1,)),
          ("[1, 1], [2, 2]", (2,)), ("0", (1,)), ("m", ())]
    for ix, vshape in si:
        cs.append(C("i/setitem/[%s]=%s" % (ix, vshape), "z = +x\nz[%s] = y\nout = z" % ix, [("x", (2, 3)), ("y", vshape)],
                    setup="m = np.array([[True, False, True], [False, False, True]])\nidx = np.array([0, 0, 2])\n"
                          "mb = np.array([True, False])"))
    cs.append(C("i/setitem/scalar-const", "z = +x\nz[0] = 2.0\nout = z", [("x", (2, 3))]))
    cs.append(C("i/setitem/self-view", "z = +x\nz[0] = z[1]\nout = z", [("x", (2, 3))]))
    cs.append(C("i/where/x,y", "out = mg.where(m, x, y)", [("x", (2, 2)), ("y", (2,))],
                setup="m = np.array([[True, False], [False, False]])"))
    cs.append(C("i/where/x,scalar", "out = mg.where(m, x, 2.0)", [("x", (2, 2))], setup="m = np.array([True, False])"))
    cs.append(C("i/where/x,x", "out = mg.where(m, x, x)", [("x", (2,))], setup="m = np.array([True, False])"))
    for lo, hi in (("-0.5", "0.5"), ("None", "0.5"), ("-0.5", "None")):
        cs.append(C("i/clip/%s,%s" % (lo, hi), "out = mg.clip(x, %s, %s)" % (lo, hi), [("x", (2,))],
                    convention="zero_at_tie"))
    cs.append(C("i/clip/tensor-bounds", "out = mg.clip(x, y, z)", [("x", (2,)), ("y", (1,)), ("z", (2,))],
                convention="zero_at_tie", assume="import_lt = None"))
    # ------------------------------------------------------------------ tensor manipulation
    tmn = [
        ("reshape/(3,2)", "mg.reshape(x, (3, 2))", (2, 3)), ("reshape/-1", "x.reshape(-1)", (2, 3)),
        ("reshape/()", "x.reshape(())", (1, 1)), ("reshape/F", "x.reshape(3, 2)", (2, 3)),
        ("squeeze", "mg.squeeze(x)", (1, 2, 1)), ("squeeze/axis", "mg.squeeze(x, axis=2)", (1, 2, 1)),
        ("squeeze/axes", "x.squeeze(axis=(0, 2))", (1, 2, 1)),
        ("ravel", "mg.ravel(x)", (2, 3)), ("flatten", "x.flatten()", (2, 3)), ("ravel/0d", "x.ravel()", ()),
        ("expand_dims/0", "mg.expand_dims(x, 0)", (2, 3)), ("expand_dims/-1", "mg.expand_dims(x, -1)", (2, 3)),
        ("broadcast_to", "mg.broadcast_to(x, (2, 2, 3))", (1, 3)), ("broadcast_to/0d", "mg.broadcast_to(x, (2, 2))", ()),
        ("broadcast_to/same", "mg.broadcast_to(x, (2, 3))", (2, 3)),
        ("atleast_1d", "mg.atleast_1d(x)", ()), ("atleast_2d", "mg.atleast_2d(x)", (3,)), ("atleast_3d", "mg.atleast_3d(x)", (2, 3)),
        ("atleast_3d/1d", "mg.atleast_3d(x)", (3,)), ("atleast_2d/0d", "mg.atleast_2d(x)", ()),
        ("transpose", "mg.transpose(x)", (2, 3)), ("transpose/axes", "mg.transpose(x, 1, 2, 0)", (2, 1, 3)),
        ("transpose/neg", "x.transpose(-1, 0, 1)", (2, 1, 3)), ("T", "x.T", (2, 3)), ("T/3d", "x.T", (2, 1, 3)),
        ("moveaxis", "mg.moveaxis(x, 0, -1)", (2, 1, 3)), ("moveaxis/tuple", "mg.moveaxis(x, (0, 1), (2, 0))", (2, 1, 3)),
        ("swapaxes", "mg.swapaxes(x, 0, 2)", (2, 1, 3)), ("swapaxes/neg", "x.swapaxes(-1, 0)", (2, 3)),
        ("roll/flat", "mg.roll(x, 2)", (2, 3)), ("roll/axis", "mg.roll(x, 1, axis=1)", (2, 3)),
        ("roll/neg", "mg.roll(x, -1, axis=0)", (3, 2)), ("roll/tuple", "mg.roll(x, (1, 2), axis=(0, 1))", (2, 3)),
        ("roll/0d-array-shift", "mg.roll(x, np.array(2), axis=1)", (2, 3)), ("roll/array-shift", "mg.roll(x, np.array([1, 2]), axis=(0, 1))", (2, 3)),
        ("roll/list-shift", "mg.roll(x, [1, -1], axis=(1, 0))", (2, 3)),
        ("repeat/int", "mg.repeat(x, 2)", (2, 2)), ("repeat/axis", "mg.repeat(x, 2, axis=0)", (2, 2)),
        ("repeat/seq", "mg.repeat(x, [1, 0, 2], axis=1)", (2, 3)), ("repeat/0", "mg.repeat(x, 0)", (2,)),
        ("repeat/0d", "mg.repeat(x, 3)", ()), ("repeat/neg-axis", "mg.repeat(x, [2, 1], axis=-2)", (2, 2)),
    ]
    for n, e, shp in tmn:
        cs.append(C("m/%s" % n, "out = %s" % e, [("x", shp, "F" if n.endswith("/F") else "C")]))
    cs.append(C("m/concatenate/0", "out = mg.concatenate([x, y, x], axis=0)", [("x", (2, 2)), ("y", (1, 2))]))
    cs.append(C("m/concatenate/-1", "out = mg.concatenate((x, c, y), axis=-1)", [("x", (2, 2)), ("y", (2, 1))], carrs=[["c", [2, 1]]]))
    cs.append(C("m/concatenate/None", "out = mg.concatenate([x, y], axis=None)", [("x", (2, 2)), ("y", (3,))]))
    cs.append(C("m/stack/0", "out = mg.stack([x, y, x])", [("x", (2,)), ("y", (2,))]))
    cs.append(C("m/stack/-1", "out = mg.stack([x, y], axis=-1)", [("x", (2, 2)), ("y", (2, 2))]))
    cs.append(C("m/stack/1", "out = mg.stack([x, c, y], axis=1)", [("x", (2, 2)), ("y", (2, 2))], carrs=[["c", [2, 2]]]))
    # ------------------------------------------------------------------ activations
    for f, extra in (("relu", ""), ("leaky_relu", ", 0.1"), ("hard_tanh", ""), ("hard_tanh", ", lower_bound=-0.5, upper_bound=2"),
                     ("elu", ", 0.5"), ("selu", ""), ("soft_sign", ""), ("sigmoid", ""), ("tanh", "")):
        cs.append(C("a/%s%s" % (f, extra), "out = %s(x%s)" % (f, extra), [("x", (2,))]))
    cs.append(C("a/glu", "out = glu(x)", [("x", (1, 2))]))
    cs.append(C("a/glu/axis0", "out = glu(x, axis=0)", [("x", (2, 2))]))
    for f in ("softmax", "logsoftmax"):
        cs.append(C("a/%s/(2,)" % f, "out = %s(x)" % f, [("x", (2,))]))
        cs.append(C("a/%s/(1,3)" % f, "out = %s(x)" % f, [("x", (1, 3))]))
        cs.append(C("a/%s/(2,2)/axis0" % f, "out = %s(x, axis=0)" % f, [("x", (2, 2))]))
        cs.append(C("a/%s/(2,2)/axisNone" % f, "out = %s(x, axis=None)" % f, [("x", (2, 2))]))
        if T:
            cs.append(C("a/%s/(2,2)/axis(0,1)" % f, "out = %s(x, axis=(0,1))" % f, [("x", (2, 2))]))
            cs.append(C("a/%s/(2,1,2)/axis-1" % f, "out = %s(x)" % f, [("x", (2, 1, 2))]))
    # ------------------------------------------------------------------ layers
    conv = [((1, 1, 3), (1, 1, 2), "stride=1"), ((1, 2, 3), (2, 2, 2), "stride=1, padding=1"),
            ((2, 1, 4), (1, 1, 2), "stride=2"), ((1, 1, 5), (1, 1, 2), "stride=1, dilation=2"),
            ((1, 1, 3, 3), (1, 1, 2, 2), "stride=1"), ((1, 1, 4, 3), (1, 1, 2, 2), "stride=(2, 1)"),
            ((1, 1, 2, 2), (2, 1, 2, 2), "stride=1, padding=(1, 0)")]
    if T:
        conv += [((1, 1, 4, 4), (1, 1, 2, 2), "stride=2, padding=0"), ((1, 1, 5), (1, 1, 3), "stride=2, padding=1"),
                 ((2, 2, 3), (2, 2, 3), "stride=1, padding=1"), ((1, 1, 3, 4), (1, 1, 1, 2), "stride=(1, 2), dilation=(1, 1)")]
    for xs, ws, opt in conv:
        cs.append(C("n/conv_nd/%s*%s/%s" % (xs, ws, opt), "out = conv_nd(x, w, %s)" % opt, [("x", xs), ("w", ws)]))
    mp = [((1, 4), "(2,), 2"), ((1, 3), "(2,), 1"), ((2, 2), "(2, 2), 1"), ((1, 2, 2), "(1, 2), (1, 2)"), ((1, 3, 2), "(2, 1), 1")]
    for xs, opt in mp:
        cs.append(C("n/max_pool/%s/%s" % (xs, opt), "out = max_pool(x, %s)" % opt, [("x", xs)]))
    cs.append(C("n/batchnorm/plain", "out = batchnorm(x, eps=0.5)", [("x", (3, 1))]))
    cs.append(C("n/batchnorm/affine", "out = batchnorm(x, gamma=y, beta=z, eps=0.25)", [("x", (2, 2)), ("y", (2,)), ("z", (2,))]))
    cs.append(C("n/batchnorm/3d", "out = batchnorm(x, gamma=y, eps=1.0)", [("x", (2, 1, 2)), ("y", (1,))]))
    gru_leaves = [("X", (1, 1, 1)), ("Uz", (1, 1)), ("Wz", (1, 1)), ("bz", (1,)), ("Ur", (1, 1)), ("Wr", (1, 1)), ("br", (1,)),
                  ("Uh", (1, 1)), ("Wh", (1, 1)), ("bh", (1,))]
    cs.append(C("n/gru/T1", "out = gru(X, Uz, Wz, bz, Ur, Wr, br, Uh, Wh, bh)", gru_leaves, heavy=True))
    cs.append(C("n/gru/T2", "out = gru(X, Uz, Wz, bz, Ur, Wr, br, Uh, Wh, bh)", [("X", (2, 1, 1))] + gru_leaves[1:], heavy=True))
    # parameters that receive more than one contribution: tied gates; a penalty term whose backward pass runs first
    cs.append(C("n/gru/T1/tied-gates", "out = gru(X, Uz, Wz, bz, Uz, Wz, bz, Uh, Wh, bh)", [l for l in gru_leaves if l[0] not in ("Ur", "Wr", "br")], heavy=True))
    cs.append(C("n/gru/T1/penalty", "s = gru(X, Uz, Wz, bz, Ur, Wr, br, Uh, Wh, bh)\nout = s[1:].sum() + (Wz * Wz).sum() + (bh * Uh).sum()", gru_leaves, heavy=True))
    if T:
        cs.append(C("n/gru/T2/s0", "out = gru(X, Uz, Wz, bz, Ur, Wr, br, Uh, Wh, bh, s0=s)",
                    [("X", (2, 1, 1))] + gru_leaves[1:], carrs=[["s", [1, 1]]], heavy=True))
    # ------------------------------------------------------------------ losses
    cs.append(C("o/softmax_crossentropy", "out = softmax_crossentropy(x, y)", [("x", (2, 2))], setup="y = np.array([1, 0])"))
    cs.append(C("o/softmax_crossentropy/(1,3)", "out = softmax_crossentropy(x, y)", [("x", (1, 3))], setup="y = np.array([2])"))
    cs.append(C("o/negative_log_likelihood", "out = negative_log_likelihood(x, y)", [("x", (2, 2))], setup="y = np.array([1, 0])"))
    cs.append(C("o/negative_log_likelihood/weights", "out = negative_log_likelihood(x, y, weights=w)", [("x", (2, 2))],
                setup="y = np.array([1, 1])\nw = np.array([0.25, 2.0])"))
    cs.append(C("o/multiclass_hinge", "out = multiclass_hinge(x, y)", [("x", (2, 2))], setup="y = np.array([1, 0])"))
    cs.append(C("o/multiclass_hinge/h=0.5", "out = multiclass_hinge(x, y, hinge=0.5)", [("x", (1, 3))], setup="y = np.array([1])"))
    cs.append(C("o/margin_ranking_loss", "out = margin_ranking_loss(x, y, t, 0.5)", [("x", (2,)), ("y", (2,))],
                setup="t = np.array([1, -1])"))
    cs.append(C("o/margin_ranking_loss/2d", "out = margin_ranking_loss(x, y, -1, 0.25)", [("x", (2, 1)), ("y", (2, 1))]))
    for gamma in (0, 1, 2):
        cs.append(C("o/focal_loss/g=%s" % gamma, "out = focal_loss(x, y, alpha=0.5, gamma=%s)" % gamma, [("x", (2, 2))],
                    setup="y = np.array([1, 0])", assume="gt(x, 0); lt(x, 1)"))
        cs.append(C("o/softmax_focal_loss/g=%s" % gamma, "out = softmax_focal_loss(x, y, alpha=2.0, gamma=%s)" % gamma,
                    [("x", (1, 2))], setup="y = np.array([1])"))
    if T:
        cs.append(C("o/focal_loss/g=0.5", "out = focal_loss(x, y, gamma=0.5)", [("x", (1, 2))], setup="y = np.array([0])",
                    assume="gt(x, 0); lt(x, 1)"))
    for c in cs:
        if c.get("assume") == "import_lt = None":
            c["assume"] = None
    # non-C-ordered operands (the data of the leaf is the transpose of a C-ordered array): every case with a >= 2-D leaf,
    # for reductions, linear algebra, indexing, manipulation, layers (unary/binary ufuncs: thorough only, they have their own F cases)
    extra = []
    for c in cs:
        if c["name"].endswith("F") or c["name"].endswith("F-layout"):
            continue
        if not any(len(l[1]) >= 2 for l in c["leaves"]):
            continue
        if c["name"].split("/")[0] in ("u", "b") and not T:
            continue
        if c.get("heavy"):
            continue
        d = dict(c)
        d["name"] = c["name"] + "/F"
        d["leaves"] = [[l[0], l[1], "F"] if len(l[1]) >= 2 else list(l) for l in c["leaves"]]
        extra.append(d)
    cs += extra
    cs.append({"name": "crosshair/einsum-label-helpers", "kind": "crosshair", "file": "crosshair_specs/einsum_helpers.py", "body": "crosshair check", "leaves": []})
    return cs


_OPS_SEEN = set()


def _install_op_recorder():
    from mygrad.operation_base import Operation

    if getattr(Operation, "_verif_rec", False):
        return
    orig = Operation.__init__

    def __init__(self, *a, **k):
        _OPS_SEEN.add(type(self).__module__ + "." + type(self).__name__)
        orig(self, *a, **k)

    Operation.__init__ = __init__
    Operation._verif_rec = True
    # subclasses that do not call super().__init__ are caught through __call__ of _op
    import mygrad.tensor_base as tb

    real_op = tb.Tensor._op.__func__

    def _op(cls, Op, *a, **k):
        _OPS_SEEN.add(Op.__module__ + "." + Op.__name__)
        return real_op(cls, Op, *a, **k)

    tb.Tensor._op = classmethod(_op)


def run_crosshair(spec, tier):
    """pure-Python helpers of EinSum.backward_var: PEP-316 contracts checked by CrossHair (symbolic str/int inputs, z3)"""
    import os
    import subprocess

    res = common.new_result()
    env = dict(os.environ)
    env["PYTHONPATH"] = os.path.join(common.REPO, "src")
    p = subprocess.run([sys.executable, "-m", "crosshair", "check", "--report_all", "--per_condition_timeout", "40" if tier == "quick" else "120",
                        os.path.join(common.VERIF, spec["file"])], capture_output=True, text=True, env=env, cwd=common.VERIF, timeout=1500)
    out = (p.stdout or "") + (p.stderr or "")
    for line in out.splitlines():
        if "Confirmed over all paths" in line:
            res["unsat"] += 1
            res["paths"] += 1
        elif ": error:" in line:
            res["sat"] += 1
            code = "import sys\n# CrossHair counterexample for a contract in %s:\nprint(%r)\nprint('REPRODUCED'); sys.exit(1)\n" % (spec["file"], line)
            path = common.write_replay(PROP, "crosshair_" + gradcase._safe(line.split(":")[1] if ":" in line else "x"), code)
            res["status"] = common.VIOLATION
            res["violations"].append({"signature": "crosshair:%s" % line.split("error:")[-1][:50], "replay": path, "summary": line[-300:]})
        elif "Not confirmed" in line or "Unable to meet precondition" in line:
            res["unknown"] += 1
            res["status"] = common.INCONCLUSIVE if res["status"] == common.OK else res["status"]
            res["notes"].append(line[-200:])
    if res["paths"] == 0 and res["status"] == common.OK:
        res["status"] = common.INCONCLUSIVE
        res["notes"].append("crosshair produced no verdict: %s" % out[-300:])
    res["sample"] = {"case": spec["name"], "contracts_confirmed_over_all_paths": res["unsat"], "bounds": "len(str) <= 4, unbounded ints"}
    return res


def run_case(spec, tier):
    if spec.get("kind") == "crosshair":
        return run_crosshair(spec, tier)
    mg = common._WORKER["mg"]
    _install_op_recorder()
    _OPS_SEEN.clear()
    heavy = spec.get("heavy")
    res = gradcase.run(spec, tier, PROP, mg, max_paths=600 if tier == "quick" else 3000,
                       max_seconds=100 if tier == "quick" else 600, timeout_ms=20000 if heavy else 10000)
    res["ops_seen"] = sorted(_OPS_SEEN)
    return res


def all_operation_classes():
    import inspect

    from symnp import lib

    lib.ensure_path()
    import mygrad  # noqa
    import mygrad.nnet.layers.gru  # noqa
    from mygrad.operation_base import Operation

    def subs(c):
        for s in c.__subclasses__():
            yield s
            yield from subs(s)

    return sorted({"%s.%s" % (s.__module__, s.__name__) for s in subs(Operation) if not inspect.isabstract(s)})


def main(argv=None):
    args = common.parse_args(argv)
    cs = cases(args.tier)
    if args.only:
        cs = [c for c in cs if args.only in c["name"]]

    def extra(results):
        seen = set()
        for r in results:
            if r:
                seen.update(r.get("ops_seen", []))
        allops = all_operation_classes()
        conv = sum(r.get("convention_paths", 0) for r in results if r)
        return {"operation_classes_total": len(allops),
                "operation_classes_exercised": len([o for o in allops if o in seen]),
                "operation_classes_uncovered": [o for o in allops if o not in seen],
                "convention_paths_checked": conv,
                "spurious_paths_dropped": sum(r.get("spurious_paths", 0) for r in results if r)}

    describe = dict(
        level="other",
        rule="one case = (operation, operand shapes/layout, option combination); every feasible path of the real "
             "forward+backward code is explored; non-trivial = at least one path whose VJP/convention query was posed",
        explanation="bounded symbolic execution of the real forward and backward code on object arrays of symbolic reals; "
                    "per path the gradient terms are compared by z3 (cvc5 on unknown) with the reference derivative of "
                    "the forward term, for all real inputs of the stated shape; boundary paths carry only the documented conventions",
        functions=["mygrad.tensor_base.Tensor._op", "mygrad.tensor_base.Tensor.backward", "mygrad.operation_base.Operation.backward",
                   "mygrad._utils.reduce_broadcast", "every Operation.__call__/backward_var reached (see operation_classes_*)"],
        bounds={"operand elements": "<= 12 symbolic reals per operand", "shapes": "see case names", "tier": args.tier},
        assumptions=["real arithmetic, no rounding/NaN/inf", "transcendental functions abstracted as uninterpreted functions with "
                     "derivative table and algebraic side conditions (unsat is sound; sat is replayed)",
                     "numba GRU kernels executed as their .py_func source", "dtype= option outside (dtype lane of C03/C14)"],
        outside=["Prod/CumProd zero-patching branches (inputs with exact zeros)", "nan_to_num=False variants", "dropout",
                 "shapes above the bound"],
        exhaustive=False,
    )
    from symnp import selftest

    return common.main(PROP, "harness.C02", cs, args.tier, args.seed, describe, preflight=selftest.run, extra_evidence=extra,
                       deadline_s=900 if args.tier == "quick" else 3000)


if __name__ == "__main__":
    sys.exit(main())
