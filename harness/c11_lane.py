"""C11 concrete lane: every spelling family on ordinary arrays, over operand dtype x constant flags x memory layout.

Run with the UNPATCHED library (child process, PYTHONPATH=<repo>/src).  Degenerate symbolic execution: every variable is a
selector (dtype, flag, layout), no solver.  Within a family (same operation, same options) all spellings must agree on: raising
or not, result dtype, constant flag, values, and the gradients handed to both operands.

usage: c11_lane.py            -> reads JSON {"families": {name: [spelling, ...]}} on stdin, prints 'C11-LANE-JSON:<json>'
       c11_lane.py --replay   -> same input restricted to one family; exits 1 + REPRODUCED if it has findings
"""
import json
import sys

import numpy as np

DTYPES = ["float64", "float32", "float16", "int64", "bool"]
FLAGS = [(False, False), (True, False), (False, True), (True, True)]
LAYOUTS = ["C", "T"]  # x as a C-ordered array / as the transpose of a (3, 2) array


def operands(dt, layout, rng):
    base = rng.rand(2, 3) + 0.6
    ybase = rng.rand(3) + 0.6
    if dt == "bool":
        X, Y = base > 1.0, ybase > 1.0
    elif dt.startswith("int"):
        X, Y = (base * 3).astype(dt) + 1, (ybase * 3).astype(dt) + 1
    else:
        X, Y = base.astype(dt), ybase.astype(dt)
    if layout == "T":
        X = np.ascontiguousarray(X.T).T  # same values, non C-ordered memory
    return X, Y


def run_family(mg, sps):
    findings = []
    checked = 0
    M = np.array([[True, False, True], [False, True, True]])
    for dt in DTYPES:
        for cx, cy in FLAGS:
            if not dt.startswith("float") and not (cx and cy):
                continue  # integer / boolean tensors are constants
            for layout in LAYOUTS:
                rows = []
                for sp in sps:
                    if ("out=" in sp or "r_ " in sp) and (not dt.startswith("float") or cx or cy):
                        # augmented / out= forms: the target keeps its own dtype and constant flag (C10, NumPy casting rules), so they are
                        # the same operation as the functional spellings only for non-constant float operands
                        continue
                    rng = np.random.RandomState(4)
                    X, Y = operands(dt, layout, rng)
                    O = (rng.rand(2, 3)).astype(dt if dt.startswith("float") else "float64")
                    x, y = mg.Tensor(X, constant=cx), mg.Tensor(Y, constant=cy)
                    env = {"mg": mg, "np": np, "x": x, "y": y, "M": M, "O_t": lambda: mg.Tensor(O.copy()), "O64": lambda: mg.Tensor(O.astype("float64"))}
                    s = sp.format(a="x", b="y")
                    try:
                        with np.errstate(all="ignore"):
                            if "r =" in s or "; " in s:
                                exec(s, env)
                                r = env["r"]
                            else:
                                r = eval(s, env)
                            if not isinstance(r, mg.Tensor):
                                rows.append((sp, "not-a-tensor", type(r).__name__))
                                continue
                            d, c, rdt = r.data.copy(), r.constant, str(r.dtype)
                            if not c:
                                r.backward(np.random.RandomState(9).rand(*r.shape) + 0.5)
                        rows.append((sp, "ok", d, c, rdt, None if x.grad is None else x.grad.copy(), None if y.grad is None else y.grad.copy()))
                    except Exception as e:
                        rows.append((sp, "raise", type(e).__name__))
                checked += 1
                fams = {}
                for r in rows:
                    fams.setdefault(("where" in r[0], "1.5" in r[0], "2.0" in r[0] and "**" in r[0], "dtype=" in r[0]), []).append(r)
                tag = "%s x.const=%s y.const=%s layout=%s" % (dt, cx, cy, layout)
                for fam in fams.values():
                    ref = next((r for r in fam if r[1] == "ok"), None)
                    for r in fam:
                        if r[1] != "ok":
                            if ref is not None:
                                findings.append("%s: `%s` %s (%s) while `%s` succeeds" % (tag, r[0], r[1], r[2], ref[0]))
                            continue
                        if r is ref:
                            continue
                        if r[4] != ref[4]:
                            findings.append("%s: `%s` dtype %s, `%s` dtype %s" % (tag, r[0], r[4], ref[0], ref[4]))
                        if r[3] != ref[3]:
                            findings.append("%s: `%s` constant=%s, `%s` constant=%s" % (tag, r[0], r[3], ref[0], ref[3]))
                        # tolerance by the dtype the result is computed in: spellings of one operation run the same kernel
                        tol = {"float16": dict(rtol=2e-2, atol=1e-3), "float32": dict(rtol=1e-5, atol=1e-7)}.get(r[4], dict(rtol=1e-13, atol=0.0))
                        if r[2].shape != ref[2].shape or not np.allclose(r[2].astype(float), ref[2].astype(float), equal_nan=True, **tol):
                            findings.append("%s: `%s` and `%s` differ in value/shape" % (tag, r[0], ref[0]))
                        for k, nm in ((5, "x"), (6, "y")):
                            a, b = r[k], ref[k]
                            if (a is None) != (b is None):
                                findings.append("%s: `%s` and `%s` differ in whether %s receives a gradient" % (tag, r[0], ref[0], nm))
                            elif a is not None and (a.dtype != b.dtype or not np.allclose(a.astype(float), b.astype(float), equal_nan=True, **tol)):
                                findings.append("%s: `%s` and `%s` give %s different gradients (value or dtype)" % (tag, r[0], ref[0], nm))
    return checked, findings


def main():
    import mygrad as mg

    spec = json.loads(sys.stdin.read())
    out = {"checked": 0, "findings": {}}
    for name, sps in spec["families"].items():
        n, f = run_family(mg, sps)
        out["checked"] += n
        if f:
            out["findings"][name] = sorted(set(f))[:6]
    if "--replay" in sys.argv:
        print(json.dumps(out["findings"], indent=1))
        print("REPRODUCED" if out["findings"] else "NOT-REPRODUCED")
        sys.exit(1 if out["findings"] else 0)
    print("C11-LANE-JSON:" + json.dumps(out))


if __name__ == "__main__":
    main()
