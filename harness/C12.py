"""C12 — operations never modify their inputs; gradients are never aliased (DESIGN §3 C12).

Driver: every C02 case (all operations, all configurations).  Caller-owned objects (operand arrays, constant arrays, index
objects and masks, the seed handed to backward(g)) are snapshotted before the call; afterwards element terms must be
unchanged (explicit out= targets exempt).  After backward(): gradient arrays of tensors that do not share memory must not
share memory, and a write probe (fresh symbols written in place into one .grad) must leave every other non-sharing .grad,
every .data and the caller's seed untouched.
"""
import copy
import itertools
import sys

import numpy as np

from symnp import engine as eng_mod, lib, query, terms as tm
from symnp.scalars import Sym, symarr, terms_of

from . import C02, common, gradcase

PROP = "C12"

EXTRA = [
    dict(name="x/identity-ops/+x", body="out = +x", leaves=[["x", [2, 2]]]),
    dict(name="x/add-zero", body="out = x + 0.0", leaves=[["x", [3]]]),
    dict(name="x/reshape-view", body="out = x.reshape(4)", leaves=[["x", [2, 2]]]),
    dict(name="x/getitem-all", body="out = x[...]", leaves=[["x", [3]]]),
    dict(name="x/add-broadcast-same-grad", body="out = x + y", leaves=[["x", [2, 2]], ["y", [2, 2]]]),
    dict(name="x/sum-then-broadcast", body="out = x.sum() + y", leaves=[["x", [3]], ["y", [3]]]),
    dict(name="x/two-uses", body="a = x * 1.0\nb = x + 0.0\nout = a + b", leaves=[["x", [3]]]),
    dict(name="x/view-and-base", body="v = x[:2]\nout = v + x[1:]", leaves=[["x", [3]]]),
    dict(name="x/transpose", body="out = x.T + y", leaves=[["x", [2, 2]], ["y", [2, 2]]]),
    dict(name="x/stack", body="out = mg.stack([x, y])", leaves=[["x", [2]], ["y", [2]]]),
    dict(name="x/where", body="out = mg.where(M, x, y)", leaves=[["x", [2]], ["y", [2]]], setup="M = np.array([True, False])"),
    dict(name="x/setitem-value", body="z = +x\nz[idx] = y\nout = z", leaves=[["x", [3]], ["y", [2]]], setup="idx = np.array([0, 2])"),
    dict(name="x/getitem-list-index", body="out = x[ix]", leaves=[["x", [3]]], setup="ix = [0, 0, 2]"),
    dict(name="x/einsum", body="out = mg.einsum('i,i->i', x, y)", leaves=[["x", [2]], ["y", [2]]]),
    dict(name="x/neg-neg", body="out = -(-x)", leaves=[["x", [2]]]),
    # caller-owned integer index ARRAYS with negative entries (the library must not normalise them in place), also read-only ones
    dict(name="x/getitem-neg-int64-index", body="out = x[ix]", leaves=[["x", [3]]], setup="ix = np.array([-1, 0])"),
    dict(name="x/getitem-neg-int64-index-2d", body="out = x[ix]", leaves=[["x", [2, 3]]], setup="ix = np.array([-1, -2, 0])"),
    dict(name="x/getitem-neg-index-tuple", body="out = x[ix, jx]", leaves=[["x", [2, 3]]], setup="ix = np.array([-1, 0])\njx = np.array([0, -1])"),
    dict(name="x/getitem-neg-int32-index", body="out = x[ix]", leaves=[["x", [3]]], setup="ix = np.array([-1, -1, 0], dtype=np.int32)"),
    dict(name="x/setitem-neg-index", body="z = +x\nz[ix] = y\nout = z", leaves=[["x", [3]], ["y", [2]]], setup="ix = np.array([-1, 0])"),
    dict(name="x/getitem-readonly-index", body="out = x[ix]", leaves=[["x", [3]]], setup="ix = np.array([-1, 0])\nix.flags.writeable = False"),
    dict(name="x/take-like-repeat-neg", body="out = x[ix] * x[ix]", leaves=[["x", [3]]], setup="ix = np.array([-2, -2])"),
] + [
    # same-shape operands under a where= mask (pass-through gradients of two operands must still be distinct arrays)
    dict(name="x/where-same-shape/%s/%s/%dd" % (op, kind, len(shp)), body="out = mg.%s(x, y, where=M, out=%s)" % (op, tgt), leaves=[["x", shp], ["y", shp]],
         carrs=[["o", shp]], setup="M = np.array(%r)\not = mg.Tensor(o.copy())" % (mask,))
    for op in ("add", "subtract", "multiply", "maximum")
    for tgt, kind in (("o", "np"), ("ot", "mg"))
    for shp, mask in (([3], [True, False, True]), ([2, 2], [[True, False], [True, True]]))
]


def cases(tier):
    cs = [c for c in C02.cases(tier) if c.get('kind') != 'crosshair'] + EXTRA
    out = []
    for i in range(0, len(cs), 25):
        out.append({"name": "ops/%d" % i, "c02": cs[i:i + 25]})
    out.append({"name": "shared-seed", "shared_seed": True})
    out.append({"name": "default-seed", "default_seed": True})
    return out


SHARED_SEED_PROGS = ["x.backward(g); y.backward(g)", "a = x * 2.0; b = y * 3.0; a.backward(g); b.backward(g)", "x.backward(g); b = y * 3.0; b.backward(g)"]
SHARED_SEED_REPLAY = """import sys
import numpy as np
import mygrad as mg
bad = []
for src in %r:
    x, y, g = mg.Tensor([1.0, 2.0, 3.0]), mg.Tensor([4.0, 5.0, 6.0]), np.array([0.5, 1.5, 2.5])
    env = {"mg": mg, "np": np, "x": x, "y": y, "g": g}
    exec(src, env)
    T = {n: t for n, t in env.items() if isinstance(t, mg.Tensor) and t.grad is not None}
    names = sorted(T)
    for i, n1 in enumerate(names):
        for n2 in names[i + 1:]:
            if np.shares_memory(T[n1].grad, T[n2].grad) and not np.shares_memory(T[n1].data, T[n2].data): bad.append((src, n1, n2))
print(bad)
print('REPRODUCED' if bad else 'NOT-REPRODUCED'); sys.exit(1 if bad else 0)
"""


DEFAULT_SEED_PROGS = ["a = (x * 2.0).sum(); b = (y * 3.0).sum(); a.backward(); b.backward()", "a = x.sum(); a.backward(); b = x.sum(); b.backward()",
                      "a = x * 2.0; b = y * 3.0; a.backward(); b.backward()", "a = mg.sum(x * x); a.backward(); b = mg.sum(a * 1.0 + y); b.backward()",
                      "a = (x * 2.0).sum(); a.backward(); c = (y * 1.0).sum(); d = c * 2.0; d.backward()"]


def run_default_seed(mg):
    """back-propagations WITHOUT a seed from several terminals: the arrays MyGrad makes up as seeds (and whatever they are handed on to) must
    not be shared between tensors that do not share memory"""
    res = common.new_result()
    findings = []
    for src in DEFAULT_SEED_PROGS:
        lib.reset_state()
        x, y = mg.Tensor(symarr("x", (3,))), mg.Tensor(symarr("y", (3,)))
        env = {"mg": mg, "np": np, "x": x, "y": y}
        exec(src, env)
        res["paths"] += 1
        T = {n: t for n, t in env.items() if isinstance(t, mg.Tensor) and t.grad is not None}
        for n1, n2 in itertools.combinations(sorted(T), 2):
            if np.shares_memory(T[n1].grad, T[n2].grad) and not np.shares_memory(T[n1].data, T[n2].data):
                findings.append("`%s`: %s.grad and %s.grad share memory although the tensors do not" % (src, n1, n2))
    lib.reset_state()
    if findings:
        path = common.write_replay(PROP, "default_seed", SHARED_SEED_REPLAY.replace(', "g": g}', "}") % (DEFAULT_SEED_PROGS,))
        ok, out = common.run_replay(path)
        if ok:
            res["status"] = common.VIOLATION
            res["violations"].append({"signature": "default-seed:two-terminals-alias", "replay": path, "summary": "; ".join(findings[:3])})
        else:
            res["status"] = common.INCONCLUSIVE
            res["notes"].append("did not reproduce: %s" % findings[:2])
    res["sample"] = {"programs": DEFAULT_SEED_PROGS}
    return res


def run_shared_seed(mg):
    """two back-propagations seeded with ONE caller-owned array: the gradients of the two (unrelated) terminals must not share memory"""
    res = common.new_result()
    findings = []
    for src in SHARED_SEED_PROGS:
        lib.reset_state()
        x, y = mg.Tensor(symarr("x", (3,))), mg.Tensor(symarr("y", (3,)))
        g = symarr("g", (3,))
        guid = _uids(g)
        env = {"mg": mg, "np": np, "x": x, "y": y, "g": g}
        exec(src, env)
        res["paths"] += 1
        T = {n: t for n, t in env.items() if isinstance(t, mg.Tensor) and t.grad is not None}
        for n1, n2 in itertools.combinations(sorted(T), 2):
            if np.shares_memory(T[n1].grad, T[n2].grad) and not np.shares_memory(T[n1].data, T[n2].data):
                findings.append("`%s`: %s.grad and %s.grad share memory although the tensors do not" % (src, n1, n2))
        if _uids(g) != guid:
            findings.append("`%s`: the seed array was changed" % src)
    lib.reset_state()
    if findings:
        sig = "shared-seed:two-terminals-alias"
        known = common.match_known(common.load_known(PROP), sig)
        path = common.write_replay(PROP, "shared_seed", SHARED_SEED_REPLAY % (SHARED_SEED_PROGS,))
        ok, out = common.run_replay(path, count=known is None)
        if ok:
            if known is None:
                res["status"] = common.VIOLATION
            res["violations"].append({"signature": sig, "replay": path, "summary": "; ".join(findings[:3])})
        else:
            res["status"] = common.INCONCLUSIVE
            res["notes"].append("did not reproduce: %s" % findings[:2])
    res["sample"] = {"programs": SHARED_SEED_PROGS}
    return res


def _uids(a):
    return tuple(t.uid for t in terms_of(a))


def run_one(cs, mg, res, fill=None):
    """fill: None = symbolic leaves under the case's domain assumption; a number = every leaf element is that constant (the degenerate
    points the gradient checks exclude: zeros, ties everywhere) - mutation and aliasing facts must hold there as well"""
    engine = eng_mod.Engine(skip_ties=True)
    engine.reset_fn = lib.reset_state
    env0 = gradcase.make_env(mg)
    out_targets = set()
    if "out=" in cs["body"]:
        out_targets.add(cs["body"].split("out=")[1].split(",")[0].split(")")[0].strip())
    findings = []

    def body():
        env = dict(env0)
        owned = {}
        for ent in cs.get("leaves", []):
            owned[ent[0]] = gradcase.mk_leaf(ent[0], ent[1], ent[2] if len(ent) > 2 else "C")
            if fill is not None:
                flat = owned[ent[0]].reshape(-1) if owned[ent[0]].flags.c_contiguous else None
                for idx in np.ndindex(*owned[ent[0]].shape):
                    owned[ent[0]][idx] = Sym(fill)
        carr = {}
        for name, shape in cs.get("carrs", []):
            carr[name] = symarr(name, tuple(shape))
            env[name] = carr[name]
        setup_vals = {}
        if cs.get("setup"):
            before_keys = set(env)
            exec(cs["setup"], env)
            for k in set(env) - before_keys:
                if not k.startswith("__") and k not in out_targets:
                    setup_vals[k] = env[k]
        setup_copy = {k: copy.deepcopy(v) for k, v in setup_vals.items()}
        tens = {}
        for n, a in owned.items():
            tens[n] = mg.Tensor(a)
            env[n] = tens[n]
        snap_owned = {n: _uids(a) for n, a in owned.items()}
        snap_carr = {n: _uids(a) for n, a in carr.items() if n not in out_targets}
        snap_data = {n: _uids(t.data) for n, t in tens.items()}
        fnd = []
        if cs.get("assume") and fill is None:
            e2 = dict(env)
            e2.update(gradcase._assume_helpers(engine))
            exec(cs["assume"], e2)
        exec(cs["body"], env)
        out = env["out"]

        def check(stage):
            for n, a in owned.items():
                if _uids(a) != snap_owned[n]:
                    fnd.append("%s: the array the tensor %s was built from changed" % (stage, n))
            for n, a in carr.items():
                if n in snap_carr and _uids(a) != snap_carr[n]:
                    fnd.append("%s: caller-owned array %s changed" % (stage, n))
            for n, t in tens.items():
                if _uids(t.data) != snap_data[n] and not _mutated_by_design(cs, n):
                    fnd.append("%s: data of input tensor %s changed" % (stage, n))
            for k, v in setup_vals.items():
                if not _same(v, setup_copy[k]):
                    fnd.append("%s: index/mask object %s changed" % (stage, k))

        check("after the forward call")
        out_uids = _uids(out.data)
        g = symarr("g", out.shape)
        g_uids = _uids(g)
        out.backward(g)
        check("after backward()")
        if _uids(out.data) != out_uids:
            fnd.append("backward() changed the data of the output tensor")
        if _uids(g) != g_uids:
            fnd.append("backward(g) changed the contents of the seed array g")
        # aliasing between gradients
        T = dict(tens)
        T["out"] = out
        for n in ("z", "v", "a", "b", "m"):
            if n in env and isinstance(env[n], mg.Tensor) and n not in T:
                T[n] = env[n]
        withg = [(n, t) for n, t in T.items() if t.grad is not None]
        for (n1, t1), (n2, t2) in itertools.combinations(withg, 2):
            if np.shares_memory(t1.grad, t2.grad) and not np.shares_memory(t1.data, t2.data):
                fnd.append("gradients of %s and %s share memory although the tensors do not" % (n1, n2))
        # write probe
        for n1, t1 in withg:
            if t1.grad.size == 0:
                continue
            others = {n2: _uids(t2.grad) for n2, t2 in withg if n2 != n1 and not np.shares_memory(t1.data, t2.data)}
            datas = {n2: _uids(t2.data) for n2, t2 in T.items()}
            seed_before = _uids(g)
            try:
                t1.grad[...] = symarr("probe_" + n1, t1.grad.shape)
            except ValueError:
                continue  # read-only gradient array: cannot be edited at all
            for n2, u in others.items():
                if _uids(T[n2].grad) != u:
                    fnd.append("editing %s.grad in place changed %s.grad (the tensors do not share memory)" % (n1, n2))
            for n2, u in datas.items():
                if _uids(T[n2].data) != u:
                    fnd.append("editing %s.grad in place changed the data of %s" % (n1, n2))
            if n1 != "out" and _uids(g) != seed_before and not np.shares_memory(t1.data, out.data):
                fnd.append("editing %s.grad in place changed the seed array passed to backward()" % n1)
        return fnd

    for p in engine.explore(body, max_paths=800, max_seconds=120):
        res["paths"] += 1
        if p.exc is not None:
            if type(p.exc).__name__ == "NonReal" or fill is not None:
                continue  # outside the real semantics / the degenerate point is outside the operation's domain: no fact
            res["status"] = common.INCONCLUSIVE
            res["notes"].append("%s: %s: %s" % (cs["name"], type(p.exc).__name__, str(p.exc)[:200]))
            continue
        findings += p.out
        res["unsat"] += 1
    return sorted(set(findings))


def _mutated_by_design(cs, n):
    return False


def _same(a, b):
    if isinstance(a, np.ndarray):
        return isinstance(b, np.ndarray) and a.shape == b.shape and a.dtype == b.dtype and np.array_equal(a, b)
    if isinstance(a, (list, tuple)):
        return type(a) is type(b) and len(a) == len(b) and all(_same(x, y) for x, y in zip(a, b))
    try:
        return bool(a == b)
    except Exception:
        return True


def replay_source(cs, fill=None):
    leaves = cs.get("leaves", [])
    return '''import sys, copy, itertools
import numpy as np
import mygrad as mg
import mygrad.nnet as nnet
from mygrad.nnet.activations import *
from mygrad.nnet.layers import *
from mygrad.nnet.losses import *
np.seterr(all="ignore")
rng = np.random.RandomState(11)
CS = %r
FILL = %r
env = {"mg": mg, "np": np, "nnet": nnet}
env.update({k: v for k, v in globals().items() if not k.startswith("_")})
owned = {}; carr = {}
for ent in CS.get("leaves", []):
    a = np.asarray(rng.rand(*ent[1]) * 0.5 + 0.25)
    if FILL is not None: a = np.full(ent[1], float(FILL))
    if len(ent) > 2 and ent[2] == "F" and len(ent[1]) >= 2: a = np.asfortranarray(a)
    owned[ent[0]] = a
for name, shape in CS.get("carrs", []):
    carr[name] = np.asarray(rng.rand(*shape) * 0.5 + 0.25); env[name] = carr[name]
keys = set(env)
if CS.get("setup"): exec(CS["setup"], env)
out_t = CS["body"].split("out=")[1].split(",")[0].split(")")[0].strip() if "out=" in CS["body"] else None
setup_vals = {k: env[k] for k in set(env) - keys if not k.startswith("__") and k != out_t}
setup_copy = {k: copy.deepcopy(v) for k, v in setup_vals.items()}
tens = {n: mg.Tensor(a) for n, a in owned.items()}; env.update(tens)
s_owned = {n: a.copy() for n, a in owned.items()}; s_carr = {n: a.copy() for n, a in carr.items() if n != out_t}
s_data = {n: t.data.copy() for n, t in tens.items()}
bad = []
def same(a, b):
    if isinstance(a, np.ndarray): return isinstance(b, np.ndarray) and a.shape == b.shape and np.array_equal(a, b)
    if isinstance(a, (list, tuple)): return len(a) == len(b) and all(same(x, y) for x, y in zip(a, b))
    return a == b
def check(stage):
    for n, a in owned.items():
        if not np.array_equal(a, s_owned[n]): bad.append((stage, "source array of", n))
    for n, a in s_carr.items():
        if not np.array_equal(carr[n], a): bad.append((stage, "caller array", n))
    for n, t in tens.items():
        if not np.array_equal(t.data, s_data[n]): bad.append((stage, "tensor data", n))
    for k, v in setup_vals.items():
        if not same(v, setup_copy[k]): bad.append((stage, "index/mask", k))
try:
    exec(CS["body"], env); out = env["out"]
    check("forward")
    od = out.data.copy()
    g = np.asarray(rng.rand(*out.shape) + 0.5); g0 = g.copy()
    out.backward(g)
    check("backward")
    if not np.array_equal(out.data, od): bad.append("output data changed by backward")
    if not np.array_equal(g, g0): bad.append("seed changed by backward")
    T = dict(tens); T["out"] = out
    for n in ("z", "v", "a", "b", "m"):
        if n in env and isinstance(env[n], mg.Tensor) and n not in T: T[n] = env[n]
    withg = [(n, t) for n, t in T.items() if t.grad is not None]
    for (n1, t1), (n2, t2) in itertools.combinations(withg, 2):
        if np.shares_memory(t1.grad, t2.grad) and not np.shares_memory(t1.data, t2.data): bad.append(("aliased grads", n1, n2))
    for n1, t1 in withg:
        if t1.grad.size == 0: continue
        others = {n2: t2.grad.copy() for n2, t2 in withg if n2 != n1 and not np.shares_memory(t1.data, t2.data)}
        datas = {n2: t2.data.copy() for n2, t2 in T.items()}
        sb = g.copy()
        try: t1.grad[...] = rng.rand(*t1.grad.shape) + 7
        except ValueError: continue
        for n2, u in others.items():
            if not np.array_equal(T[n2].grad, u): bad.append(("probe", n1, "changed grad of", n2))
        for n2, u in datas.items():
            if not np.array_equal(T[n2].data, u): bad.append(("probe", n1, "changed data of", n2))
        if n1 != "out" and not np.array_equal(g, sb) and not np.shares_memory(t1.data, out.data): bad.append(("probe", n1, "changed the seed"))
except Exception as e:
    print("raised", type(e).__name__, e)
print(bad)
print('REPRODUCED' if bad else 'NOT-REPRODUCED'); sys.exit(1 if bad else 0)
''' % ({k: v for k, v in cs.items() if k in ("name", "body", "leaves", "carrs", "setup")}, fill)


def run_case(spec, tier):
    mg = common._WORKER["mg"]
    if spec.get("shared_seed"):
        return run_shared_seed(mg)
    if spec.get("default_seed"):
        return run_default_seed(mg)
    res = common.new_result()
    res["ops_checked"] = 0
    for cs in spec["c02"]:
        res["ops_checked"] += 1
        f, fill = None, None
        try:
            for fill in (None, 0, 1):
                f = run_one(cs, mg, res, fill=fill)
                if f:
                    break
        except eng_mod.Budget as e:
            res["status"] = common.INCONCLUSIVE
            res["notes"].append("%s: %s" % (cs["name"], e))
            continue
        if f:
            f = [("[all leaf elements = %s] " % fill if fill is not None else "") + x for x in f]
            path = common.write_replay(PROP, gradcase._safe(cs["name"]), replay_source(cs, fill))
            ok, out = common.run_replay(path)
            if ok:
                res["status"] = common.VIOLATION
                res["violations"].append({"signature": "%s:%s" % (cs["name"].split("/")[1] if "/" in cs["name"] else cs["name"], f[0][:40]), "replay": path,
                                          "summary": "`%s`: %s" % (cs["body"].replace("\n", "; "), "; ".join(f[:3]))})
            else:
                res["status"] = common.INCONCLUSIVE
                res["notes"].append("did not reproduce: `%s`: %s :: %s" % (cs["body"], f[:2], (out or "")[-200:]))
    res["sample"] = {"case": spec["c02"][0]["name"], "body": spec["c02"][0]["body"]}
    return res


def main(argv=None):
    args = common.parse_args(argv)
    cs = cases(args.tier)
    if args.only:
        cs = [c for c in cs if args.only in c["name"]]

    def extra(results):
        return {"operation_configurations_checked": sum(r.get("ops_checked", 0) for r in results if r)}

    describe = dict(
        level="other",
        rule="every C02 case (all differentiable operations and option combinations, incl. hand-written backward()s of GRU, sequence ops, "
             "focal loss, einsum) plus 15 aliasing-prone programs (identity-like ops, views, repeated use, index objects) and 16 masked ufunc calls whose operands have "
             "exactly the output's shape; each body runs three times: symbolic leaves under the case's domain assumption, and all leaf elements 0 / "
             "all 1 without it (degenerate points the gradient checks exclude)",
        explanation="symbolic arrays make every element a distinct term: a caller-owned array, index/mask object, tensor data or seed that is "
                    "modified shows as a changed term; checked after the forward call and after backward(g) with a symbolic seed. Aliasing: "
                    "np.shares_memory over all pairs of gradient arrays, and an in-place write probe with fresh symbols into each .grad that must not "
                    "show in any non-sharing .grad, any .data or the seed. The solver only confirms term changes; this check is mostly "
                    "structural observation on every feasible path",
        functions=["mygrad.operation_base.Operation.backward (copy-if-view-or-identical rule)", "mygrad.tensor_base.Tensor.backward (seed handling)",
                   "mygrad.nnet.layers.gru.GRUnit.backward", "every Operation.__call__/backward_var reached"],
        bounds={"shapes": "as in C02"},
        assumptions=["object arrays stand for float arrays; in-place float kernels behave alike on object arrays"],
        outside=["dtype-dependent copies (e.g. astype with a different dtype)"],
    )
    return common.main(PROP, "harness.C12", cs, args.tier, args.seed, describe, extra_evidence=extra, deadline_s=900)


if __name__ == "__main__":
    sys.exit(main())
