"""C04 — views and in-place updates mirror NumPy's memory semantics (DESIGN §3 C04)."""
import sys

import numpy as np

from symnp import engine as eng_mod, lib, query, terms as tm
from symnp.scalars import terms_of

from . import common, gradcase, viewprog as vp

PROP = "C04"


CONST_VIEWS = ["{d} = mg.reshape({s}, (3, 2), constant={c})", "{d} = mg.reshape({s}, (6,), constant={c})", "{d} = mg.transpose({s}, constant={c})",
               "{d} = mg.swapaxes({s}, 0, -1, constant={c})", "{d} = mg.expand_dims({s}, 0, constant={c})"]


MAYBE_VIEWS = ["{d} = {s}.ravel()", "{d} = mg.ravel({s})", "{d} = np.ravel({s})", "{d} = {s}.flatten()", "{d} = mg.reshape({s}, (-1,))", "{d} = {s}.reshape(-1, 1)",
               "{d} = mg.squeeze({s})", "{d} = mg.expand_dims({s}, 0)", "{d} = mg.moveaxis({s}, 0, -1)", "{d} = mg.atleast_2d({s})", "{d} = mg.transpose({s})",
               "{d} = mg.roll({s}, 1)", "{d} = mg.repeat({s}, 1)"]


def cases(tier):
    quick = tier == "quick"
    out = []
    for base in ("flat6", "mat23", "mat23F", "mat32F"):
        progs = []
        fo = base in vp.F_ORDERED
        for h in ((1, 2) if (fo and quick) else (1, 2, 3)):
            progs += vp.programs(base, h, quick=quick or h == 3, require_inplace=True)
        if not quick and not fo:
            # h = 4 with at least two in-place statements, reduced templates (C-ordered bases only: generation is slow)
            p4 = [p for p in vp.programs(base, 4, quick=True, require_inplace=True) if sum(vp.is_inplace(l) for l in p) >= 2]
            progs += p4[::3]
        elif quick and not fo:
            # quick: the 4-statement histories "two views, .shape assigned to a tensor of the family, then an in-place update"
            # (the shortest shape of the sibling-view defect repaired in /repo; see known_findings.json), built directly
            shape = vp.BASES[base]
            for v1 in vp.VIEWS_Q:
                for v2 in vp.VIEWS_Q:
                    for s2 in ("t", "v"):
                        l1, l2 = v1.format(d="v", s="t"), v2.format(d="w", s=s2)
                        if not vp.well_typed([l1, l2], shape):
                            continue
                        for tgt in ("t", "v", "w"):
                            for shp in ("(3, 2)", "(6,)", "(2, 3)", "(1, 6)"):
                                l3 = "%s.shape = %s" % (tgt, shp)
                                if not vp.well_typed([l1, l2, l3], shape):
                                    continue
                                for tpl in ("{t}[...] = y0", "{t}[:1] = c1", "{t} *= k"):
                                    for t4 in ("t", "v", "w"):
                                        l4 = tpl.format(t=t4)
                                        if vp.well_typed([l1, l2, l3, l4], shape):
                                            progs.append([l1, l2, l3, l4])
        size = 60
        for i in range(0, len(progs), size):
            out.append({"name": "%s/%d" % (base, i), "base": base, "progs": progs[i:i + size]})
    # statements NumPy REJECTS: assigning a shape that would need a copy (non-contiguous memory). MyGrad must reject them too and leave
    # every tensor as it was (the state is compared with the twin after the rejected statement)
    for base in ("mat23", "mat23F", "mat32F"):
        shape = vp.BASES[base]
        fo = base in vp.F_ORDERED
        progs = []
        for pre in ([], ["v = t.T"], ["v = t[::-1]"], ["v = t[:, ::2]"], ["v = +t"], ["v = t.T", "w = v[1:]"]):
            if not vp.well_typed(pre, shape, fo):
                continue
            names = ["t"] + [l.split(" = ")[0] for l in pre]
            for tgt in names:
                for shp in ("(6,)", "(3, 2)", "(2, 3)", "(1, 6)"):
                    last = "%s.shape = %s" % (tgt, shp)
                    if vp.well_typed(pre, shape, fo) and not vp.well_typed(pre + [last], shape, fo) and _numpy_rejects_with_attribute_error(pre, last, shape, fo):
                        progs.append(pre + [last])
        for i in range(0, len(progs), 40):
            out.append({"name": "%s/rejected-shape/%d" % (base, i), "base": base, "progs": progs[i:i + 40], "last_rejected": True})
    # functions that return a view only when the memory allows it (ravel, reshape, squeeze, ...), applied to the base or to a strided /
    # reversed / transposed / column view of it, then one in-place statement on any member: NumPy decides view-or-copy, MyGrad must agree
    for base in ("flat6", "mat23", "mat23F"):
        shape = vp.BASES[base]
        fo = base in vp.F_ORDERED
        progs = []
        firsts = [None] + [v.format(d="v", s="t") for v in vp.VIEWS + ["{d} = {s}[:, 0]", "{d} = {s}[:, ::2]", "{d} = {s}[1:3]"]]
        for l1 in firsts:
            pre = [l1] if l1 else []
            if not vp.well_typed(pre, shape, fo):
                continue
            src = "v" if l1 else "t"
            for tpl2 in MAYBE_VIEWS:
                l2 = tpl2.format(d="w", s=src)
                if not vp.well_typed(pre + [l2], shape, fo):
                    continue
                names = ["t"] + (["v"] if l1 else []) + ["w"]
                for tpl in ("{t}[...] = y0", "{t} *= k", "mg.multiply({o}, y0, out={t}, where=Mt)") if quick else ("{t}[...] = y0", "{t}[:1] = c1", "{t} *= k", "mg.multiply({o}, y0, out={t}, where=Mt)", "{t}[[0, 0]] = y2"):
                    for tgt in names:
                        o = [n for n in names if n != tgt][0]
                        l3 = tpl.format(t=tgt, o=o)
                        if vp.well_typed(pre + [l2, l3], shape, fo):
                            progs.append(pre + [l2, l3])
        for i in range(0, len(progs), 60):
            out.append({"name": "%s/maybe-view/%d" % (base, i), "base": base, "progs": progs[i:i + 60]})
    # constant-flag family: constant / non-constant base, a view created with an explicit constant= (either way), an
    # ordinary view of the base or of that view, then one in-place statement on any member of the family
    for base in ("flat6", "mat23"):
        shape = vp.BASES[base]
        for cb in (True, False):
            progs = []
            for tpl1 in CONST_VIEWS:
                for c in (True, False):
                    l1 = tpl1.format(d="v", s="t", c=c)
                    for l2 in ("w = t[1:]", "w = v[::-1]", "w = v[0]", "w = mg.reshape(v, (6,), constant=%s)" % (not c), None):
                        pre = [l1] + ([l2] if l2 else [])
                        if not vp.well_typed(pre, shape):
                            continue
                        names = ["t", "v"] + (["w"] if l2 else [])
                        for tpl in (vp.INPLACE_Q if quick else vp.INPLACE):
                            for tgt in names:
                                o = [n for n in names if n != tgt][0]
                                l3 = tpl.format(t=tgt, o=o)
                                if vp.well_typed(pre + [l3], shape):
                                    progs.append(pre + [l3])
            if quick:
                progs = progs[::2] if not cb else progs
            for i in range(0, len(progs), 80):
                out.append({"name": "%s/constflags-%s/%d" % (base, "constbase" if cb else "varbase", i), "base": base, "const_base": cb, "progs": progs[i:i + 80]})
    return out


def _numpy_rejects_with_attribute_error(pre, last, shape, fo):
    S = vp.Setup.__new__(vp.Setup)
    S.base_shape, S.f_ordered = shape, fo
    env = vp.Setup.env_float(S)
    try:
        for ln in pre:
            vp.run_line(ln, env, twin=True)
        vp.run_line(last, env, twin=True)
    except AttributeError:
        return True  # "Incompatible shape for in-place modification"
    except Exception:
        return False
    return False


def run_program(mg, base, lines, res, check_each=True, const_base=False, last_rejected=False):
    engine = eng_mod.Engine(skip_ties=True)
    engine.reset_fn = lib.reset_state
    shape = vp.BASES[base]

    def body():
        S = vp.Setup(shape, mg, f_ordered=base in vp.F_ORDERED, const_base=const_base)
        envT, envA = S.env_mg(), S.env_np()
        ids = {"t": id(envT["t"])}
        consts = {"t": envT["t"].constant}
        report = []
        for i, ln in enumerate(lines):
            if last_rejected and i == len(lines) - 1:
                # NumPy rejects this statement (checked when the case was generated): MyGrad must raise and change nothing
                try:
                    vp.run_line(ln, envT)
                    report.append((i, [("accepted", ln, "NumPy rejects this statement (AttributeError), MyGrad accepted it")], []))
                    return report
                except Exception:  # noqa
                    pass
            else:
                vp.run_line(ln, envA, twin=True)
                vp.run_line(ln, envT)
            for n, tt in vp.live_tensors(envT, mg).items():
                ids.setdefault(n, id(tt))
                consts.setdefault(n, tt.constant)
            bad, pairs = vp.compare_state(envT, envA, mg, ids, consts)
            report.append((i, bad, pairs))
        return report

    for p in engine.explore(body, max_paths=50, max_seconds=60):
        res["paths"] += 1
        if p.exc is not None:
            return ("exc", "%s: %s" % (type(p.exc).__name__, p.exc), None)
        for i, bad, pairs in p.out:
            if bad:
                return ("struct", "after statement %d `%s`: %s %s: %s" % (i + 1, lines[i], bad[0][0], bad[0][1], bad[0][2]), i)
            verdict, model = vp.values_differ(pairs, list(p.pc) + list(p.dom))
            res[verdict] += 1
            if verdict == "sat":
                return ("value", "after statement %d `%s`: values differ from the NumPy twin" % (i + 1, lines[i]), i)
            if verdict == "unknown":
                return ("unknown", "solver unknown", i)
    return None


def replay_source(base, lines, const_base=False, last_rejected=False):
    shape = tuple(vp.BASES[base])
    return '''import sys, re
import numpy as np
import mygrad as mg
def mask_for(shape):
    n = int(np.prod(shape)) if shape else 1
    return np.array([(i %% 3) != 1 for i in range(n)], dtype=bool).reshape(shape)
def ultimate(a):
    while a.base is not None: a = a.base
    return a
rng = np.random.RandomState(1)
t0 = (rng.rand(*%r[::-1]) + 0.5).T if %r else rng.rand(*%r) + 0.5; yv0 = rng.rand(%d) + 0.5; y20 = rng.rand(2) + 0.5
T = {"mg": mg, "np": np, "t": mg.Tensor(t0, constant=%r), "y0": mg.Tensor(1.25), "yv": mg.Tensor(yv0), "y2": mg.Tensor(y20), "k": np.array(0.75), "c1": np.array(2.5), "c2": np.array(1.5)}
A = {"np": np, "t": t0.copy(order="K"), "y0": np.array(1.25), "yv": yv0.copy(), "y2": y20.copy(), "k": np.array(0.75), "c1": np.array(2.5), "c2": np.array(1.5)}
LINES = %r
LAST_REJECTED = %r
NAMES = ("t", "v", "w", "u")
ids = {}; consts = {}; bad = []
def tgt(line):
    if "out=" in line: return line.split("out=")[1].split(",")[0].split(")")[0].strip()
    h = line.split("=")[0].strip()
    for s in ("[", ".", " "): h = h.split(s)[0]
    return h
try:
    for i, ln in enumerate(LINES):
        if LAST_REJECTED and i == len(LINES) - 1:
            try:
                exec(ln, T); bad.append((i, "accepted a statement NumPy rejects"))
            except Exception as e: print("rejected:", type(e).__name__)
            ln = "pass"
        if "Mt" in ln or "Mb" in ln:
            A["Mt"] = T["Mt"] = mask_for(A[tgt(ln)].shape); A["Mb"] = T["Mb"] = mask_for(A[tgt(ln)].shape[-1:])
        exec(re.sub(r",\\s*constant=(True|False|None)", "", re.sub(r"\\b(\\w+)\\.copy\\(\\)", r"np.copy(\\1)", ln)).replace("mg.", "np."), A)
        for n in NAMES:
            if n in A and not isinstance(A[n], np.ndarray): A[n] = np.array(A[n])  # NumPy scalar <-> 0-d tensor
        exec(ln, T)
        live = [n for n in NAMES if n in T and isinstance(T[n], mg.Tensor)]
        for n in live:
            ids.setdefault(n, id(T[n])); consts.setdefault(n, T[n].constant)
            if ids[n] != id(T[n]): bad.append((i, n, "identity"))
            if consts[n] != T[n].constant: bad.append((i, n, "constant"))
            if T[n].shape != A[n].shape or not np.allclose(T[n].data, A[n]): bad.append((i, n, "values", T[n].data.tolist(), A[n].tolist()))
            ub = ultimate(A[n])
            own = [m for m in live if A[m] is ub]  # (creation order; NumPy may have returned the very array it was given)
            if ub is A[n] and (own[0] == n or T[n] is T[own[0]]):
                if T[n].base is not None: bad.append((i, n, "base should be None"))
            elif ub is A[n]:
                if T[n].base is not None and T[n].base is not T[own[0]]: bad.append((i, n, "base should be None or " + own[0]))
            elif own and T[n].base is not T[own[0]]: bad.append((i, n, "base should be " + own[0]))
        for x in live:
            for y in live:
                if x < y and np.shares_memory(T[x].data, T[y].data) != np.shares_memory(A[x], A[y]): bad.append((i, x + "," + y, "shares_memory"))
        if bad: break
except Exception as e:
    bad.append(("raised", type(e).__name__, str(e)[:300]))
print(bad)
print('REPRODUCED' if bad else 'NOT-REPRODUCED'); sys.exit(1 if bad else 0)
''' % (shape, base in vp.F_ORDERED, shape, shape[-1], bool(const_base), list(lines), bool(last_rejected))


def run_case(spec, tier):
    mg = common._WORKER["mg"]
    res = common.new_result()
    res["programs"] = 0
    for k, lines in enumerate(spec["progs"]):
        res["programs"] += 1
        r = run_program(mg, spec["base"], lines, res, const_base=spec.get("const_base", False), last_rejected=spec.get("last_rejected", False))
        if r is None:
            continue
        kind, msg, idx = r
        if kind == "unknown":
            res["status"] = common.INCONCLUSIVE
            res["notes"].append("%s: %s" % ("; ".join(lines), msg))
            continue
        path = common.write_replay(PROP, gradcase._safe("%s_%d" % (spec["name"], k)), replay_source(spec["base"], lines, spec.get("const_base", False), spec.get("last_rejected", False)))
        sig = "%s:%s" % (kind, "raised" if kind == "exc" else msg.split(": ", 1)[1][:40] if ": " in msg else msg[:40])
        if "maybe-view" in spec["name"]:
            # keyed by the statement that creates the tensor in question and the statement after which the states differ
            sig = "maybe-view:%s:%s|%s|%s" % (spec["base"], [l for l in lines if l.startswith("w = ")][0], lines[-1], sig)
        # (the confirmation of a listed known finding does not use up the replay budget)
        ok, out = common.run_replay(path, count=common.match_known(common.load_known(PROP), sig) is None)
        if ok:
            res["status"] = common.VIOLATION
            res["violations"].append({"signature": sig, "replay": path, "summary": "program `%s` (base %s): %s" % ("; ".join(lines), spec["base"], msg)})
        else:
            res["status"] = common.INCONCLUSIVE
            res["notes"].append("did not reproduce: `%s`: %s :: %s" % ("; ".join(lines), msg, (out or "")[-300:]))
    res["sample"] = {"base_shape": list(vp.BASES[spec["base"]]), "program": spec["progs"][0], "twin": [vp.twin_line(l) for l in spec["progs"][0]]}
    return res


def main(argv=None):
    args = common.parse_args(argv)
    cs = cases(args.tier)
    if args.only:
        cs = [c for c in cs if args.only in c["name"]]

    def extra(results):
        return {"programs": sum(r.get("programs", 0) for r in results if r)}

    describe = dict(
        level="other",
        rule="every well-typed program (NumPy accepts every statement) of <= 3 statements (thorough: + a third of the 4-statement "
             "programs with >= 2 in-place statements) with at least one in-place statement, over the statement templates of "
             "harness/viewprog.py, from a base of shape (6,) or (2,3), C-ordered and (<= 2 statements in quick) non-C-ordered (2,3), (3,2); plus the 4-statement family "
             "'two views, .shape assigned to one tensor of the family, one in-place update'; plus the constant-flag family (constant or non-constant "
             "base, a view created with an explicit constant=True/False through reshape/transpose/swapaxes/expand_dims, a second view, one in-place "
             "statement on any member); non-trivial = a program that ran to the end in both worlds",
        explanation="programs are enumerated exhaustively within the grammar; data are symbolic and pairwise distinct, so a value that "
                    "reaches the wrong element or a stale pre-mutation value is a term mismatch; after EVERY statement all live tensors "
                    "are compared with the NumPy twin: element terms (z3), np.shares_memory for all pairs, .base identity, id(), constant",
        functions=["mygrad.tensor_base.Tensor._op (view detection)", "Tensor._in_place_op", "Tensor.shape setter",
                   "mygrad._utils.duplicating_graph.DuplicatingGraph/mirror_tensor/reroute_ops_through",
                   "mygrad._tensor_core_ops.indexing.GetItem/SetItem", "view ops (Reshape, Transpose, SwapAxes, ...)"],
        bounds={"history length": "<= 3 (4 thorough, strided; targeted 4-statement family in quick)", "bases": "(6,), (2,3), F-ordered (2,3), (3,2); constant and non-constant", "live names": "<= 4"},
        assumptions=["one graph epoch (no backward/clear_graph inside the program)", "object arrays stand for float64 arrays"],
        outside=["longer histories", "diagonal einsum views (covered in C06)"],
        exhaustive=True,
    )
    return common.main(PROP, "harness.C04", cs, args.tier, args.seed, describe, extra_evidence=extra,
                       deadline_s=900 if args.tier == "quick" else 3000)


if __name__ == "__main__":
    sys.exit(main())
