"""C16 — nnet layers equal their documented equations (DESIGN §3 C16).

(a) real `sliding_window_view` executed on SYMBOLIC, UNBOUNDED integers (fake C-contiguous array):
    acceptance rule, read-only, output shape, byte-offset map, in-bounds, greedy maximality  -> z3 (LIA/NIA)
(b) real validation prefixes of ConvND.__call__ / MaxPoolND.__call__ on symbolic ints, composed with (a)'s rule
(c) forward values of conv_nd, max_pool, batchnorm, softmax, logsoftmax, gru and the losses on symbolic reals vs a
    naive element-by-element evaluation of the documented formula (z3 equality), invalid configurations must raise
"""
import itertools
import sys
import time

import numpy as np
import z3

from symnp import engine as eng_mod, lib, query, terms as tm
from symnp.scalars import Sym, SymBool, SymInt, symarr, terms_of

from . import common, gradcase

PROP = "C16"


# ------------------------------------------------------------------ fakes for the integer lane
class FakeArr:
    def __init__(self, shape, itemsize=8, contiguous=True, free_unit_strides=False):
        self.shape = tuple(shape)
        self.ndim = len(self.shape)
        self.flags = {"C_CONTIGUOUS": contiguous}
        st = []
        acc = itemsize
        for d in reversed(self.shape):
            st.insert(0, acc)
            acc = acc * d
        if free_unit_strides and self.shape and isinstance(self.shape[-1], SymInt):
            # NumPy: an axis of length 1 may carry ANY stride and the array still counts as C-contiguous (e.g. a[..., None] has
            # stride 0 there); the index along such an axis is always 0, so the stride must not matter
            st[-1] = SymInt(z3.If(self.shape[-1].t == 1, z3.Int("free_unit_stride"), z3.IntVal(itemsize)))
        self.strides = tuple(st)
        self.itemsize = itemsize


class Accepted(Exception):
    pass


class _IntShadow:
    """stands in for the builtin `int` inside mygrad.nnet.layers.utils: identity on values, `object` as a dtype"""

    def __call__(self, x):
        return x


_INT = _IntShadow()


class _NpIntU:
    def __getattr__(self, n):
        return getattr(np, n)

    def ones(self, shape, dtype=None, **k):
        return np.ones(shape, dtype=object if dtype is _INT else dtype, **k)

    def full(self, shape, fill_value, dtype=None, **k):
        return np.full(shape, fill_value, dtype=object if (dtype is _INT or isinstance(fill_value, SymInt)) else dtype, **k)

    # integer lane: every integer array built inside the function is an object array (Python-int semantics)
    def array(self, a, dtype=None, **k):
        return np.array(a, dtype=object if (dtype is _INT or dtype is None) else dtype, **k)

    def asarray(self, a, dtype=None, **k):
        return np.asarray(a, dtype=object if (dtype is _INT or dtype is None) else dtype, **k)


def _ival(x):
    return x.t if isinstance(x, SymInt) else z3.IntVal(int(x))


def _solve(conds, timeout_ms=20000):
    s = z3.Solver()
    s.set("timeout", timeout_ms)
    s.add(*conds)
    t0 = time.time()
    r = s.check()
    query.STATS["solver_s"] += time.time() - t0
    m = None
    if r == z3.sat:
        mm = s.model()
        m = {d.name(): mm[d].as_long() for d in mm.decls() if z3.is_int_value(mm[d])}
    return str(r), m


# ------------------------------------------------------------------ (a) sliding_window_view, symbolic ints
def swv_cases(tier):
    out = []
    leads = [0, 1, 2]
    wins = [1, 2] if tier == "quick" else [1, 2, 3]
    for nl in leads:
        for nw in wins:
            for form in ("tuple", "scalar-step", "scalar-dil", "none-dil"):
                if tier == "quick" and nw == 2 and nl == 2 and form != "tuple":
                    continue
                out.append({"kind": "swv", "name": "swv/lead%d/win%d/%s" % (nl, nw, form), "nl": nl, "nw": nw, "form": form})
    out.append({"kind": "swv-concrete", "name": "swv/concrete-values"})
    return out


def run_swv(spec, tier):
    res = common.new_result()
    import mygrad.nnet.layers.utils as U

    nl, nw, form = spec["nl"], spec["nw"], spec["form"]
    captured = {}

    def fake_as_strided(arr, shape, strides, writeable=True):
        captured.clear()
        captured.update(shape=tuple(shape), strides=tuple(strides), writeable=writeable, arr=arr)
        return "VIEW"

    saved = (U.as_strided, U.__dict__.get("int"), U.np)
    U.as_strided = fake_as_strided
    U.int = _INT  # shadow the builtin inside the module: keeps SymInt symbolic
    U.np = _NpIntU()
    engine = eng_mod.Engine(feas_timeout_ms=5000)
    engine.reset_fn = lib.reset_state
    obligations = 0
    discharged = 0
    try:
        def body():
            lead = [SymInt(z3.Int("n%d" % i)) for i in range(nl)]
            xs = [SymInt(z3.Int("x%d" % i)) for i in range(nw)]
            W = [SymInt(z3.Int("W%d" % i)) for i in range(nw)]
            for v in lead + xs:
                engine.assume(v.t >= 0)
            if form == "scalar-step":
                S0 = SymInt(z3.Int("S"))
                S = [S0] * nw
                step_arg = S0
            else:
                S = [SymInt(z3.Int("S%d" % i)) for i in range(nw)]
                step_arg = tuple(S)
            if form == "scalar-dil":
                D0 = SymInt(z3.Int("D"))
                D = [D0] * nw
                dil_arg = D0
            elif form == "none-dil":
                D = [1] * nw
                dil_arg = None
            else:
                D = [SymInt(z3.Int("D%d" % i)) for i in range(nw)]
                dil_arg = tuple(D)
            arr = FakeArr(tuple(lead) + tuple(xs), free_unit_strides=True)
            try:
                r = U.sliding_window_view(arr, tuple(W), step_arg, dil_arg)
                assert r == "VIEW"
                return ("ok", dict(captured), lead, xs, W, S, D)
            except (ValueError, TypeError) as e:
                return ("raise", type(e).__name__, lead, xs, W, S, D)

        for p in engine.explore(body, max_paths=3000, max_seconds=300, catch=(AssertionError, AttributeError, IndexError, ZeroDivisionError)):
            res["paths"] += 1
            if p.exc is not None:
                res["status"] = common.INCONCLUSIVE
                res["notes"].append("library raised %s: %s" % (type(p.exc).__name__, p.exc))
                continue
            tag, info, lead, xs, W, S, D = p.out
            pc = [tm.to_z3(c) for c in p.pc]
            rule = z3.And(*[z3.And(_ival(W[i]) >= 1, _ival(S[i]) >= 1, _ival(D[i]) >= 1, _ival(W[i]) <= _ival(xs[i]),
                                   _ival(W[i]) * _ival(D[i]) <= _ival(xs[i])) for i in range(nw)])
            if tag == "raise":
                # rejected  =>  the rule is violated
                obligations += 1
                r, m = _solve(pc + [rule])
                res[r] += 1
                if r == "unsat":
                    discharged += 1
                elif r == "sat":
                    _swv_violation(res, spec, "a configuration satisfying the acceptance rule is rejected (%s)" % info, m, nl, nw)
                else:
                    res["status"] = common.INCONCLUSIVE
                continue
            # accepted  =>  the rule holds
            obs = []
            obs.append(("accepted-implies-rule", [z3.Not(rule)]))
            shape, strides = info["shape"], info["strides"]
            if info["writeable"] is not False:
                _swv_violation(res, spec, "view is not created read-only", None, nl, nw)
            if len(shape) != nw + nl + nw or len(strides) != len(shape):
                _swv_violation(res, spec, "wrong rank of the view", None, nl, nw)
                continue
            G = [_ival(shape[i]) for i in range(nw)]
            # output shape
            exp_shape = []
            for i in range(nw):
                ext = (_ival(W[i]) - 1) * _ival(D[i]) + 1
                exp_shape.append(SymInt._fdiv(_ival(xs[i]) - ext, _ival(S[i])) + 1)
            exp_shape += [_ival(v) for v in lead] + [_ival(w) for w in W]
            obs.append(("shape", [z3.Or(*[_ival(shape[i]) != exp_shape[i] for i in range(len(shape))])]))
            # index variables
            g = [z3.Int("g%d" % i) for i in range(nw)]
            n = [z3.Int("i%d" % i) for i in range(nl)]
            w = [z3.Int("w%d" % i) for i in range(nw)]
            rng = []
            for i in range(nw):
                rng += [g[i] >= 0, g[i] < G[i], w[i] >= 0, w[i] < _ival(shape[nw + nl + i])]
            for i in range(nl):
                rng += [n[i] >= 0, n[i] < _ival(shape[nw + i])]
            off = z3.IntVal(0)
            for idx, st in zip(g + n + w, strides):
                off = off + idx * _ival(st)
            col = [g[i] * _ival(S[i]) + w[i] * _ival(D[i]) for i in range(nw)]
            # offset of arr[n..., col...] in the C-contiguous fake array
            full_idx = n + col
            arr_strides = info["arr"].strides
            ref = z3.IntVal(0)
            for idx, st in zip(full_idx, arr_strides):
                ref = ref + idx * _ival(st)
            obs.append(("in-bounds", rng + [z3.Or(*[z3.Or(col[i] < 0, col[i] > _ival(xs[i]) - 1) for i in range(nw)])]))
            obs.append(("offset-map", rng + [off != ref]))
            # greedy maximality: one more placement along any windowed axis would not fit
            obs.append(("greedy-maximal", [z3.Or(*[G[i] * _ival(S[i]) + (_ival(W[i]) - 1) * _ival(D[i]) <= _ival(xs[i]) - 1
                                                    for i in range(nw)])]))
            obs.append(("nonneg-grid", [z3.Or(*[G[i] < 1 for i in range(nw)])]))
            for name, neg in obs:
                obligations += 1
                r, m = _solve(pc + neg)
                res[r] += 1
                if r == "unsat":
                    discharged += 1
                elif r == "sat":
                    _swv_violation(res, spec, "obligation %s fails" % name, m, nl, nw)
                else:
                    res["status"] = common.INCONCLUSIVE
                    res["notes"].append("unknown on obligation %s" % name)
            # reachability witness
            r, m = _solve(pc)
            if r != "sat":
                res["notes"].append("accepted path without witness (%s)" % r)
            elif "sample" not in res:
                res["sample"] = {"case": spec["name"], "accepted_path_witness": m, "obligations": [o[0] for o in obs]}
    except eng_mod.Budget as e:
        res["status"] = common.INCONCLUSIVE
        res["notes"].append(str(e))
    except eng_mod.Unbounded as e:
        res["status"] = common.INCONCLUSIVE
        res["notes"].append("unbounded concretisation: %s" % e)
    finally:
        U.as_strided = saved[0]
        U.np = saved[2]
        if saved[1] is None:
            U.__dict__.pop("int", None)
        else:
            U.int = saved[1]
    res["obligations"] = obligations
    res["discharged"] = discharged
    if res["paths"] == 0:
        res["status"] = common.INCONCLUSIVE
    return res


def _swv_violation(res, spec, msg, model, nl, nw):
    """replay with concrete integers against the real function on a real array"""
    m = model or {}
    lead = [max(0, m.get("n%d" % i, 1)) for i in range(nl)]
    xs = [m.get("x%d" % i, 3) for i in range(nw)]
    W = [m.get("W%d" % i, 1) for i in range(nw)]
    S = [m.get("S%d" % i, m.get("S", 1)) for i in range(nw)]
    D = [m.get("D%d" % i, m.get("D", 1)) for i in range(nw)]
    if int(np.prod(lead + xs)) > 10**6:
        res["status"] = common.INCONCLUSIVE
        res["notes"].append("counterexample too large to replay: %s" % m)
        return
    src = '''import sys, itertools
import numpy as np
from mygrad import sliding_window_view
lead, xs, W, S, D = %r, %r, %r, %r, %r
FREE = %r
arr = np.arange(int(np.prod(lead + xs)), dtype=np.float64).reshape(tuple(lead + xs))
if FREE is not None and arr.shape[-1] == 1:
    # a length-1 trailing axis with an arbitrary stride (what a[..., None] produces): still C-contiguous for NumPy
    arr = np.lib.stride_tricks.as_strided(arr, arr.shape, arr.strides[:-1] + (FREE,))
rule = all(w >= 1 and s >= 1 and d >= 1 and w <= x and w * d <= x for w, s, d, x in zip(W, S, D, xs))
try:
    v = sliding_window_view(arr, tuple(W), tuple(S), tuple(D))
    accepted = True
except (ValueError, TypeError) as e:
    accepted = False
bad = accepted != rule
if accepted and not bad:
    nw = len(W)
    bad = v.flags.writeable
    exp = tuple((x - ((w - 1) * d + 1)) // s + 1 for x, w, s, d in zip(xs, W, S, D)) + tuple(lead) + tuple(W)
    bad = bad or v.shape != exp
    if not bad:
        for idx in itertools.islice(np.ndindex(*v.shape), 20000):
            g, n, w = idx[:nw], idx[nw:nw + len(lead)], idx[nw + len(lead):]
            col = tuple(gi * s + wi * d for gi, s, wi, d in zip(g, S, w, D))
            if any(c < 0 or c >= x for c, x in zip(col, xs)) or v[idx] != arr[n + col]:
                bad = True
                break
print('accepted', accepted, 'rule', rule)
print('REPRODUCED' if bad else 'NOT-REPRODUCED'); sys.exit(1 if bad else 0)
''' % (lead, xs, W, S, D, (0 if "free_unit_stride" in m else None))
    path = common.write_replay(PROP, gradcase._safe(spec["name"]), src)
    ok, out = common.run_replay(path)
    if ok:
        res["status"] = common.VIOLATION
        res["violations"].append({"signature": "swv:%s" % msg, "replay": path,
                                  "summary": "sliding_window_view: %s at lead=%s x=%s W=%s S=%s D=%s" % (msg, lead, xs, W, S, D)})
    else:
        res["status"] = common.INCONCLUSIVE
        res["notes"].append("swv counterexample did not reproduce: %s %s :: %s" % (msg, m, (out or "")[-200:]))


def run_swv_concrete(spec, tier, mg):
    """value mapping + non-contiguous input on real object arrays of distinct symbols (structural, no solver)"""
    res = common.new_result()
    from mygrad import sliding_window_view

    n = 0
    for shape in [(5,), (2, 4), (3, 4), (2, 3, 4)]:
        for nw in range(1, min(2, len(shape)) + 1):
            xs = shape[-nw:]
            for W in itertools.product(*[range(1, x + 1) for x in xs]):
                for S in itertools.product(*[range(1, 3) for _ in xs]):
                    for D in itertools.product(*[range(1, 3) for _ in xs]):
                        for layout in ("C", "T"):
                            base = symarr("a", shape if layout == "C" else shape[::-1])
                            arr = base if layout == "C" else base.T
                            rule = all(w * d <= x for w, d, x in zip(W, D, xs))
                            try:
                                v = sliding_window_view(arr, W, S, D)
                                acc = True
                            except ValueError:
                                acc = False
                            n += 1
                            bad = acc != rule
                            if acc and not bad:
                                bad = v.flags.writeable
                                lead = shape[:-nw]
                                for idx in np.ndindex(*v.shape):
                                    g, nn, w = idx[:nw], idx[nw:nw + len(lead)], idx[nw + len(lead):]
                                    col = tuple(gi * s + wi * d for gi, s, wi, d in zip(g, S, w, D))
                                    if v[idx] is not arr[nn + col]:
                                        bad = True
                                        break
                            if bad:
                                res["status"] = common.VIOLATION
                                res["violations"].append({"signature": "swv-concrete", "replay": None,
                                                          "summary": "swv shape=%s W=%s S=%s D=%s layout=%s" % (shape, W, S, D, layout)})
    res["paths"] = n
    res["sample"] = {"case": spec["name"], "configurations": n}
    return res


# ------------------------------------------------------------------ (b) acceptance of conv_nd / max_pool
def accept_cases(tier):
    out = [{"kind": "accept", "name": "accept/conv/1d", "layer": "conv", "nd": 1},
           {"kind": "accept", "name": "accept/pool/1d", "layer": "pool", "nd": 1},
           # two windowed axes: a configuration is valid only if EVERY axis fits and tiles
           {"kind": "accept", "name": "accept/conv/2d", "layer": "conv", "nd": 2},
           {"kind": "accept", "name": "accept/pool/2d", "layer": "pool", "nd": 2}]
    if tier == "thorough":
        out += [{"kind": "accept", "name": "accept/pool/3d", "layer": "pool", "nd": 3}]
    return out


class _NpInt:
    """np stand-in for the validation prefix: arrays of SymInt are object arrays; pad returns a fake array"""

    def __getattr__(self, n):
        return getattr(np, n)

    @staticmethod
    def _sym(a):
        if isinstance(a, SymInt):
            return True
        if isinstance(a, np.ndarray):
            return a.dtype == object
        if isinstance(a, (list, tuple)):
            return any(_NpInt._sym(e) for e in a)
        return False

    def array(self, a, dtype=None, **k):
        if self._sym(a):
            dtype = object
        return np.array(a, dtype=dtype, **k)

    def asarray(self, a, dtype=None, **k):
        if self._sym(a):
            dtype = object
        return np.asarray(a, dtype=dtype, **k)

    def pad(self, x, axis_pad, mode=None):
        return FakeArr(tuple(d + a + b for d, (a, b) in zip(x.shape, axis_pad)))


class FakeT:
    def __init__(self, shape):
        self.data = FakeArr(shape)
        self.data.data = None


def run_accept(spec, tier):
    res = common.new_result()
    layer, nd = spec["layer"], spec["nd"]
    import importlib

    mod = importlib.import_module("mygrad.nnet.layers.conv" if layer == "conv" else "mygrad.nnet.layers.pooling")
    mod = sys.modules[mod.__name__]
    saved_np, saved_swv = mod.np, mod.sliding_window_view

    def rec(x, window_shape, step, dilation=None):
        raise Accepted((x.shape, tuple(window_shape), tuple(step), None if dilation is None else tuple(dilation)))

    mod.np = _NpInt()
    mod.sliding_window_view = rec
    engine = eng_mod.Engine(feas_timeout_ms=5000)
    engine.reset_fn = lib.reset_state
    obligations = discharged = 0
    try:
        def body():
            x = [SymInt(z3.Int("x%d" % i)) for i in range(nd)]
            W = [SymInt(z3.Int("W%d" % i)) for i in range(nd)]
            S = [SymInt(z3.Int("S%d" % i)) for i in range(nd)]
            for v in x + W:
                engine.assume(v.t >= 1)
            if layer == "conv":
                P = [SymInt(z3.Int("P%d" % i)) for i in range(nd)]
                D = [SymInt(z3.Int("D%d" % i)) for i in range(nd)]
                X = FakeT((1, 1) + tuple(x))
                Wt = FakeT((1, 1) + tuple(W))
                op = mod.ConvND()
                try:
                    op(X, Wt, stride=tuple(S), padding=tuple(P), dilation=tuple(D))
                except Accepted as a:
                    return ("accepted", a.args[0], x, W, S, P, D)
                except (ValueError, AssertionError) as e:
                    return ("rejected", type(e).__name__, x, W, S, P, D)
            else:
                P = [0] * nd
                D = [1] * nd
                X = FakeT((1,) + tuple(x))
                op = mod.MaxPoolND()
                try:
                    op(X, tuple(W), tuple(S))
                except Accepted as a:
                    return ("accepted", a.args[0], x, W, S, P, D)
                except (ValueError, AssertionError) as e:
                    return ("rejected", type(e).__name__, x, W, S, P, D)
            return ("fellthrough", None, x, W, S, P, D)

        for p in engine.explore(body, max_paths=4000, max_seconds=300, catch=(AttributeError, IndexError, TypeError)):
            res["paths"] += 1
            if p.exc is not None:
                res["status"] = common.INCONCLUSIVE
                res["notes"].append("prefix raised %s: %s" % (type(p.exc).__name__, str(p.exc)[:200]))
                continue
            tag, info, x, W, S, P, D = p.out
            if tag == "fellthrough":
                res["status"] = common.INCONCLUSIVE
                res["notes"].append("validation prefix did not reach sliding_window_view")
                continue
            pc = [tm.to_z3(c) for c in p.pc]
            iv = _ival
            ext = [(iv(W[i]) - 1) * iv(D[i]) + 1 for i in range(nd)]
            padded = [iv(x[i]) + 2 * iv(P[i]) for i in range(nd)]
            valid = z3.And(*[z3.And(iv(S[i]) >= 1, iv(P[i]) >= 0, iv(D[i]) >= 1, padded[i] - ext[i] >= 0,
                                    (padded[i] - ext[i]) % iv(S[i]) == 0) for i in range(nd)])
            if tag == "accepted":
                shape, w, st, dl = info
                xs = [iv(v) for v in shape[-nd:]]
                dls = [iv(d) for d in dl] if dl is not None else [z3.IntVal(1)] * nd
                swv_ok = z3.And(*[z3.And(iv(w[i]) >= 1, iv(st[i]) >= 1, dls[i] >= 1, iv(w[i]) <= xs[i], iv(w[i]) * dls[i] <= xs[i])
                                  for i in range(nd)])
                # what reaches sliding_window_view is the padded data with the caller's parameters
                passed = z3.And(*[z3.And(xs[i] == padded[i], iv(w[i]) == iv(W[i]), iv(st[i]) == iv(S[i]), dls[i] == iv(D[i]))
                                  for i in range(nd)])
                # region of the recorded known finding F3 (DESIGN §4): dilated extent fits, W*D does not
                known = z3.Or(*[z3.And(ext[i] <= padded[i], padded[i] < iv(W[i]) * iv(D[i])) for i in range(nd)])
                checks = [("prefix forwards the caller's configuration", [z3.Not(passed)], None),
                          ("accepted-but-invalid", [swv_ok, z3.Not(valid)], "accepted-invalid"),
                          ("valid-but-rejected-by-window-rule (outside the known region)", [z3.Not(swv_ok), valid, z3.Not(known)], "valid-rejected"),
                          ("valid-but-rejected-by-window-rule (known region)", [z3.Not(swv_ok), valid, known], "valid-rejected")]
            else:
                checks = [("valid-but-rejected-by-prefix", [valid], "valid-rejected")]
            for name, neg, kind in checks:
                obligations += 1
                r, m = _solve(pc + neg)
                res[r] += 1
                if r == "unsat":
                    discharged += 1
                elif r == "sat":
                    _accept_violation(res, spec, name, kind, m, layer, nd)
                else:
                    res["status"] = common.INCONCLUSIVE
                    res["notes"].append("unknown: %s" % name)
            r, m = _solve(pc)
            if r == "sat" and "sample" not in res:
                res["sample"] = {"case": spec["name"], "path": tag, "witness": m}
    except eng_mod.Budget as e:
        res["status"] = common.INCONCLUSIVE
        res["notes"].append(str(e))
    finally:
        mod.np = saved_np
        mod.sliding_window_view = saved_swv
    res["obligations"] = obligations
    res["discharged"] = discharged
    return res


def _accept_violation(res, spec, name, kind, m, layer, nd):
    g = lambda k, d: [m.get("%s%d" % (k, i), d) for i in range(nd)]
    x, W, S, P, D = g("x", 1), g("W", 1), g("S", 1), g("P", 0), g("D", 1)
    if layer == "pool":
        P, D = [0] * nd, [1] * nd
    if max(x + W + S + P + D) > 60:
        # ask for a small witness instead of an arbitrary large one
        pass
    src = '''import sys
import numpy as np
import mygrad as mg
from mygrad.nnet.layers import conv_nd, max_pool
x, W, S, P, D = %r, %r, %r, %r, %r
valid = all(s >= 1 and p >= 0 and d >= 1 and (xi + 2 * p - ((w - 1) * d + 1)) >= 0 and (xi + 2 * p - ((w - 1) * d + 1)) %% s == 0
            for xi, w, s, p, d in zip(x, W, S, P, D))
data = np.arange(float(np.prod(x))).reshape((1, 1) + tuple(x))
try:
    if %r == "conv":
        out = conv_nd(data, np.ones((1, 1) + tuple(W)), stride=tuple(S), padding=tuple(P), dilation=tuple(D))
    else:
        out = max_pool(data[0], tuple(W), tuple(S))
    accepted = True
except (ValueError, AssertionError, TypeError) as e:
    accepted = False
    print(type(e).__name__, str(e)[:200])
print('valid', valid, 'accepted', accepted)
bad = valid != accepted
print('REPRODUCED' if bad else 'NOT-REPRODUCED'); sys.exit(1 if bad else 0)
''' % (x, W, S, P, D, layer)
    path = common.write_replay(PROP, gradcase._safe(spec["name"] + "_" + (kind or "x")), src)
    sig = _accept_signature(layer, kind, x, W, S, P, D)
    ok, out = common.run_replay(path, count=common.match_known(common.load_known(PROP), sig) is None)
    if ok:
        res["status"] = common.VIOLATION
        res["violations"].append({"signature": sig, "replay": path,
                                  "summary": "%s: %s at x=%s W=%s S=%s P=%s D=%s" % (layer, name, x, W, S, P, D)})
    else:
        res["status"] = common.INCONCLUSIVE
        res["notes"].append("acceptance counterexample did not reproduce: %s %s :: %s" % (name, m, (out or "")[-200:]))


def _accept_signature(layer, kind, x, W, S, P, D):
    """known-finding key: conv with dilation where the dilated extent fits but W*D does not"""
    if layer == "conv" and kind == "valid-rejected":
        if any((w - 1) * d + 1 <= xi + 2 * p < w * d for xi, w, p, d in zip(x, W, P, D)):
            return "conv_nd:valid-rejected:(W-1)D+1<=x+2P<W*D"
    return "%s:%s" % (layer, kind)


# ------------------------------------------------------------------ (c) values vs naive formulas
def value_cases(tier):
    cs = []
    T = tier == "thorough"
    # conv 1-D: every configuration in the box, valid ones compute the formula, invalid ones must raise
    xr = range(1, 7) if T else range(1, 6)
    confs = []
    for x in xr:
        for W in range(1, 4):
            for S in range(1, 4):
                for P in range(0, 3 if T else 2):
                    for D in range(1, 3):
                        confs.append((x, W, S, P, D))
    for i in range(0, len(confs), 40):
        cs.append({"kind": "conv1d", "name": "val/conv1d/%d" % i, "confs": confs[i:i + 40]})
    c2 = [((3, 3), (2, 2), (1, 1), (0, 0), (1, 1)), ((4, 3), (2, 2), (2, 1), (0, 0), (1, 1)), ((2, 2), (2, 2), (1, 1), (1, 0), (1, 1)),
          ((3, 4), (1, 2), (1, 2), (0, 0), (1, 1)), ((3, 3), (2, 1), (1, 1), (0, 1), (1, 2)), ((3, 3), (2, 2), (2, 2), (0, 0), (1, 1)),
          # invalid: one axis tiles, the other does not (must raise)
          ((4, 3), (2, 2), (2, 2), (0, 0), (1, 1)), ((3, 4), (2, 2), (2, 2), (0, 0), (1, 1)), ((4, 4), (2, 2), (1, 3), (0, 0), (1, 1)),
          ((2, 4), (2, 2), (1, 1), (0, 0), (1, 4))]
    if T:
        c2 += [((4, 4), (2, 2), (2, 2), (0, 0), (1, 1)), ((3, 5), (2, 2), (1, 1), (0, 0), (1, 2)), ((4, 4), (3, 3), (1, 1), (1, 1), (1, 1)),
               ((5, 3), (2, 2), (1, 1), (0, 0), (2, 1))]
    for k, c in enumerate(c2):
        cs.append({"kind": "conv2d", "name": "val/conv2d/%d" % k, "conf": [list(t) for t in c]})
    pools = []
    for x in range(1, 6):
        for W in range(1, 4):
            for S in range(1, 4):
                pools.append((x, W, S))
    for i in range(0, len(pools), 15):
        cs.append({"kind": "pool1d", "name": "val/pool1d/%d" % i, "confs": pools[i:i + 15]})
    cs.append({"kind": "pool2d", "name": "val/pool2d", "confs": [((2, 2), (2, 2), (1, 1)), ((2, 3), (1, 2), (1, 1)), ((3, 2), (2, 1), (1, 1)),
                                                                  ((2, 4), (2, 2), (2, 2)), ((3, 4), (2, 2), (2, 2)), ((4, 3), (2, 2), (2, 2)),
                                                                  ((2, 5), (2, 2), (1, 2)), ((3, 3), (3, 1), (1, 3))]})
    for name in ("batchnorm", "batchnorm-affine", "softmax", "logsoftmax", "softmax_crossentropy", "negative_log_likelihood",
                 "multiclass_hinge", "margin_ranking_loss", "focal_loss", "softmax_focal_loss", "gru", "gru-s0"):
        cs.append({"kind": "formula", "name": "val/%s" % name, "which": name})
        if name != "gru":
            cs.append({"kind": "formula", "name": "val/%s/no_autodiff" % name, "which": name, "untracked": True})
    return cs


def _eq_arrays(res, spec, engine_path, got, want, what, extra_conds=()):
    """z3: is there an input where got != want (elementwise terms)?"""
    got = np.asarray(got, dtype=object)
    want = np.asarray(want, dtype=object)
    if got.shape != want.shape:
        res["status"] = common.VIOLATION
        res["violations"].append({"signature": "shape:%s" % what, "replay": None,
                                  "summary": "%s: shape %s, formula gives %s" % (what, got.shape, want.shape)})
        return
    prob = query.Problem(list(engine_path.pc) + list(engine_path.dom) + list(extra_conds))
    pairs = list(zip(terms_of(got), terms_of(want)))
    r = prob.differ_any(pairs, 15000)
    res[r.verdict] += 1
    if r.verdict == "sat":
        # locate + numeric gate
        from symnp import numeric

        for k, (g, w) in enumerate(pairs):
            if g is w:
                continue
            r1 = prob.differ(g, w, 15000)
            if r1.verdict == "sat":
                model = dict(r1.model or {})
                for n_ in tm.variables([g, w]):
                    model.setdefault(n_, 1)
                G, F = numeric.evaluate([g, w], model)
                if G is None or F is None or abs(float(G) - float(F)) <= 1e-12 * max(1, abs(float(F))):
                    res["status"] = common.INCONCLUSIVE
                    res["notes"].append("spurious sat on %s[%d]" % (what, k))
                else:
                    res["status"] = common.VIOLATION
                    res["violations"].append({"signature": "value:%s" % what, "replay": None,
                                              "summary": "%s element %d: implementation %.12g, formula %.12g at %s"
                                              % (what, k, float(G), float(F), {a: float(b) for a, b in list(model.items())[:6]})})
                return
    elif r.verdict == "unknown":
        # the joint query timed out (e.g. under load): decide element by element with a larger budget
        res["unknown"] -= 1
        for k, (g, w) in enumerate(pairs):
            if g is w:
                continue
            r1 = prob.differ(g, w, 60000)
            res[r1.verdict] += 1
            if r1.verdict == "sat":
                res["status"] = common.INCONCLUSIVE
                res["notes"].append("sat on %s[%d] after a joint timeout (not replayed)" % (what, k))
            elif r1.verdict == "unknown":
                res["status"] = common.INCONCLUSIVE
                res["notes"].append("unknown on %s[%d]" % (what, k))
    rr = prob.reachable(5000)
    if rr.verdict == "unsat":
        res["notes"].append("spurious path")


def _naive_conv(x, w, S, P, D):
    """documented equation, element by element: out[n,f,g..] = Σ_c Σ_k  xpad[n,c, g*S + k*D] * w[f,c,k]"""
    N, C = x.shape[:2]
    F = w.shape[0]
    nd = x.ndim - 2
    xs = x.shape[2:]
    ws = w.shape[2:]
    pshape = tuple(xs[i] + 2 * P[i] for i in range(nd))
    xp = np.zeros((N, C) + pshape, dtype=object)
    xp[...] = Sym(0)
    sl = (slice(None), slice(None)) + tuple(slice(P[i], P[i] + xs[i]) for i in range(nd))
    xp[sl] = x
    G = tuple((pshape[i] - ((ws[i] - 1) * D[i] + 1)) // S[i] + 1 for i in range(nd))
    out = np.empty((N, F) + G, dtype=object)
    for n in range(N):
        for f in range(F):
            for g in np.ndindex(*G):
                acc = Sym(0)
                for c in range(C):
                    for k in np.ndindex(*ws):
                        pos = tuple(g[i] * S[i] + k[i] * D[i] for i in range(nd))
                        acc = acc + xp[(n, c) + pos] * w[(f, c) + k]
                out[(n, f) + g] = acc
    return out


def _conv_valid(xs, ws, S, P, D):
    return all((xs[i] + 2 * P[i] - ((ws[i] - 1) * D[i] + 1)) >= 0 and (xs[i] + 2 * P[i] - ((ws[i] - 1) * D[i] + 1)) % S[i] == 0
               for i in range(len(xs)))


def run_values(spec, tier, mg):
    res = common.new_result()
    from mygrad.nnet.layers import batchnorm, conv_nd, gru, max_pool
    from mygrad.nnet.activations import logsoftmax, softmax
    from mygrad.nnet import losses

    kind = spec["kind"]
    # ties between window elements: the maximum is still the common value; not explored separately for pooling
    engine = eng_mod.Engine(skip_ties=spec["kind"].startswith("pool"))
    engine.reset_fn = lib.reset_state
    known_sig = "conv_nd:valid-rejected:(W-1)D+1<=x+2P<W*D"

    def explore(body, max_paths=2000):
        for p in engine.explore(body, max_paths=max_paths, max_seconds=200):
            res["paths"] += 1
            yield p

    if kind in ("conv1d", "conv2d"):
        confs = spec["confs"] if kind == "conv1d" else [spec["conf"]]
        for conf in confs:
            if kind == "conv1d":
                x_, W_, S_, P_, D_ = conf
                xs, ws, S, P, D = (x_,), (W_,), (S_,), (P_,), (D_,)
                N, C, F = 1, 2, 2
            else:
                xs, ws, S, P, D = [tuple(t) for t in conf]
                N, C, F = 1, 1, 2
            valid = _conv_valid(xs, ws, S, P, D)

            def body(layout="C"):
                if layout == "C":
                    x = symarr("x", (N, C) + xs)
                    w = symarr("w", (F, C) + ws)
                elif layout == "S":
                    # data that is non-contiguous along a LEADING axis only (every second channel of a larger batch)
                    x = symarr("x", (N, 2 * C) + xs)[:, ::2]
                    w = symarr("w", (F, C) + ws)
                else:
                    # data and filters whose two spatial axes are swapped in memory (not C-ordered)
                    x = np.swapaxes(symarr("x", (N, C) + xs[::-1]), -1, -2)
                    w = np.swapaxes(symarr("w", (F, C) + ws[::-1]), -1, -2)
                try:
                    out = conv_nd(x, w, stride=S, padding=P, dilation=D, constant=True)
                    return ("ok", out.data, x, w)
                except (ValueError, AssertionError) as e:
                    return ("raise", None, x, w)

            import functools

            for p in itertools.chain(explore(body), explore(functools.partial(body, "T")) if kind == "conv2d" else (),
                                     explore(functools.partial(body, "S")) if (kind == "conv2d" or (xs[0] >= 3 and S == (1,) and P == (0,))) else ()):
                if p.exc is not None:
                    res["status"] = common.INCONCLUSIVE
                    res["notes"].append("conv raised %s" % p.exc)
                    continue
                tag, data, x, w = p.out
                if tag == "raise":
                    if valid:
                        sig = _accept_signature("conv", "valid-rejected", xs, ws, S, P, D)
                        res["status"] = common.VIOLATION
                        res["violations"].append({"signature": sig, "replay": _conv_replay(spec, xs, ws, S, P, D),
                                                  "summary": "conv_nd rejects the valid configuration x=%s W=%s S=%s P=%s D=%s" % (xs, ws, S, P, D)})
                    continue
                if not valid:
                    res["status"] = common.VIOLATION
                    res["violations"].append({"signature": "conv:accepted-invalid", "replay": _conv_replay(spec, xs, ws, S, P, D),
                                              "summary": "conv_nd accepts the invalid configuration x=%s W=%s S=%s P=%s D=%s" % (xs, ws, S, P, D)})
                    continue
                _eq_arrays(res, spec, p, data, _naive_conv(x, w, S, P, D), "conv_nd x=%s W=%s S=%s P=%s D=%s" % (xs, ws, S, P, D))
        res["sample"] = {"case": spec["name"], "configuration (x, W, S, P, D)": list(confs[0])}
    elif kind in ("pool1d", "pool2d"):
        for conf in spec["confs"]:
            if kind == "pool1d":
                xs, ws, S = (conf[0],), (conf[1],), (conf[2],)
            else:
                xs, ws, S = [tuple(t) for t in conf]
            valid = all(xs[i] - ws[i] >= 0 and (xs[i] - ws[i]) % S[i] == 0 for i in range(len(xs)))

            def body(layout="C"):
                if layout == "S":
                    x = symarr("x", (4,) + xs)[::2]  # non-contiguous along the leading axis only
                else:
                    x = symarr("x", (1,) + xs) if layout == "C" else np.swapaxes(symarr("x", (1,) + xs[::-1]), -1, -2)
                try:
                    out = max_pool(x, ws, S, constant=True)
                    return ("ok", out.data, x)
                except (ValueError, AssertionError):
                    return ("raise", None, x)

            import functools

            for p in itertools.chain(explore(body), explore(functools.partial(body, "T")) if kind == "pool2d" else (),
                                     explore(functools.partial(body, "S")) if int(np.prod(xs)) <= 4 else ()):
                if p.exc is not None:
                    res["status"] = common.INCONCLUSIVE
                    res["notes"].append("pool raised %s" % p.exc)
                    continue
                tag, data, x = p.out
                if (tag == "ok") != valid:
                    res["status"] = common.VIOLATION
                    res["violations"].append({"signature": "pool:%s" % ("accepted-invalid" if tag == "ok" else "valid-rejected"), "replay": None,
                                              "summary": "max_pool x=%s pool=%s stride=%s: accepted=%s valid=%s" % (xs, ws, S, tag == "ok", valid)})
                    continue
                if tag == "raise":
                    continue
                # naive: out[n, g] = max over window; as a specification: out >= every window element and equals one of them
                G = tuple((xs[i] - ws[i]) // S[i] + 1 for i in range(len(xs)))
                prob = query.Problem(list(p.pc) + list(p.dom))
                for n in range(np.shape(x)[0]):
                    for g in np.ndindex(*G):
                        o = Sym.lift(np.asarray(data, dtype=object)[(n,) + g])
                        elems = [Sym.lift(x[(n,) + tuple(g[i] * S[i] + k[i] for i in range(len(xs)))]) for k in np.ndindex(*ws)]
                        bad = tm.or_(tm.or_(*[tm.lt(o, e) for e in elems]), tm.and_(*[tm.ne(o, e) for e in elems]))
                        r = prob.holds(tm.not_(bad), 10000)
                        res[r.verdict] += 1
                        if r.verdict == "sat":
                            res["status"] = common.VIOLATION
                            res["violations"].append({"signature": "pool:value", "replay": None,
                                                      "summary": "max_pool x=%s pool=%s stride=%s: output element is not the window maximum" % (xs, ws, S)})
                        elif r.verdict == "unknown":
                            res["status"] = common.INCONCLUSIVE
        res["sample"] = {"case": spec["name"], "configuration (x, pool, stride)": list(spec["confs"][0])}
    else:
        if spec.get("untracked"):
            # the same formula with graph tracking suspended: the value must not depend on it
            def explore_untracked(body, **kw):
                def wrapped():
                    with mg.no_autodiff:
                        return body()
                return explore(wrapped, **kw)
            _run_formula(dict(spec, tier=tier), res, mg, explore_untracked)
        else:
            _run_formula(dict(spec, tier=tier), res, mg, explore)
    return res


def _conv_replay(spec, xs, ws, S, P, D):
    src = '''import sys
import numpy as np
from mygrad.nnet.layers import conv_nd
x, W, S, P, D = %r, %r, %r, %r, %r
valid = all((xi + 2 * p - ((w - 1) * d + 1)) >= 0 and (xi + 2 * p - ((w - 1) * d + 1)) %% s == 0 for xi, w, s, p, d in zip(x, W, S, P, D))
try:
    conv_nd(np.ones((1, 1) + tuple(x)), np.ones((1, 1) + tuple(W)), stride=tuple(S), padding=tuple(P), dilation=tuple(D)); acc = True
except (ValueError, AssertionError) as e:
    acc = False; print(type(e).__name__, str(e)[:300])
print('valid', valid, 'accepted', acc)
print('REPRODUCED' if acc != valid else 'NOT-REPRODUCED'); sys.exit(1 if acc != valid else 0)
''' % (tuple(xs), tuple(ws), tuple(S), tuple(P), tuple(D))
    path = common.write_replay(PROP, gradcase._safe("conv_%s_%s_%s_%s_%s" % (xs, ws, S, P, D)), src)
    ok, out = common.run_replay(path)
    return path if ok else None


def _run_formula(spec, res, mg, explore):
    from mygrad.nnet.layers import batchnorm, gru
    from mygrad.nnet.activations import logsoftmax, softmax
    from mygrad.nnet import losses

    which = spec["which"]
    S0 = lambda v: Sym(v)

    def rows_softmax(x):
        out = np.empty(x.shape, dtype=object)
        for i in range(x.shape[0]):
            den = S0(0)
            for j in range(x.shape[1]):
                den = den + x[i, j].exp()
            for j in range(x.shape[1]):
                out[i, j] = x[i, j].exp() / den
        return out

    if which in ("batchnorm", "batchnorm-affine"):
        eps = 0.5

        def body():
            x = symarr("x", (3, 2))
            if which == "batchnorm":
                out = batchnorm(x, eps=eps, constant=True)
                g = b = None
            else:
                g, b = symarr("g", (2,)), symarr("b", (2,))
                out = batchnorm(x, gamma=g, beta=b, eps=eps, constant=True)
            return out.data, x, g, b

        for p in explore(body):
            if p.exc is not None:
                res["status"] = common.INCONCLUSIVE
                res["notes"].append(str(p.exc))
                continue
            data, x, g, b = p.out
            want = np.empty(x.shape, dtype=object)
            N = x.shape[0]
            for c in range(x.shape[1]):
                mean = S0(0)
                for n in range(N):
                    mean = mean + x[n, c]
                mean = mean / N
                var = S0(0)
                for n in range(N):
                    var = var + (x[n, c] - mean) * (x[n, c] - mean)
                var = var / N
                for n in range(N):
                    v = (x[n, c] - mean) / (var + eps).sqrt()
                    if g is not None:
                        v = v * g[c] + b[c]
                    want[n, c] = v
            _eq_arrays(res, spec, p, data, want, which)
    elif which in ("softmax", "logsoftmax"):
        def body():
            x = symarr("x", (2, 2))
            out = (softmax if which == "softmax" else logsoftmax)(x, constant=True)
            return out.data, x

        for p in explore(body):
            if p.exc is not None or p.boundary:
                if p.exc is not None:
                    res["status"] = common.INCONCLUSIVE
                    res["notes"].append(str(p.exc))
                # tie in the stabilising max: the value is the same formula; checked as well below
                if p.exc is not None:
                    continue
            data, x = p.out
            sm = rows_softmax(x)
            want = sm if which == "softmax" else np.vectorize(lambda e: e.log(), otypes=[object])(sm)
            _eq_arrays(res, spec, p, data, want, which)
    elif which in ("softmax_crossentropy", "negative_log_likelihood", "multiclass_hinge", "focal_loss", "softmax_focal_loss"):
        y = np.array([1, 0])

        def body():
            x = symarr("x", (2, 2))
            if which == "softmax_crossentropy":
                out = losses.softmax_crossentropy(x, y, constant=True)
            elif which == "negative_log_likelihood":
                out = losses.negative_log_likelihood(x, y, constant=True)
            elif which == "multiclass_hinge":
                out = losses.multiclass_hinge(x, y, hinge=1.0, constant=True)
            elif which == "focal_loss":
                for e in x.reshape(-1):
                    eng_mod.assume(tm.lt(tm.const(0), e.t))
                    eng_mod.assume(tm.lt(e.t, tm.const(1)))
                out = losses.focal_loss(x, y, alpha=0.5, gamma=2, constant=True)
            else:
                out = losses.softmax_focal_loss(x, y, alpha=0.5, gamma=2, constant=True)
            return out.data, x

        for p in explore(body):
            if p.exc is not None:
                res["status"] = common.INCONCLUSIVE
                res["notes"].append("%s: %s" % (type(p.exc).__name__, p.exc))
                continue
            data, x = p.out
            N = 2
            if which == "softmax_crossentropy":
                sm = rows_softmax(x)
                want = S0(0)
                for i in range(N):
                    want = want - sm[i, y[i]].log()
                want = want / N
            elif which == "negative_log_likelihood":
                want = S0(0)
                for i in range(N):
                    want = want - x[i, y[i]]
                want = want / N
            elif which == "multiclass_hinge":
                # Σ_i Σ_{j != y_i} max(0, s_j - s_{y_i} + 1) / N  evaluated on this path's ordering
                want = S0(0)
                for i in range(N):
                    for j in range(2):
                        if j == y[i]:
                            continue
                        m = x[i, j] - x[i, y[i]] + 1.0
                        want = want + Sym(tm.ite(tm.lt(tm.const(0), m.t), m.t, tm.const(0)))
                want = want / N
            elif which == "focal_loss":
                want = np.empty((N,), dtype=object)
                for i in range(N):
                    pc_ = x[i, y[i]]
                    want[i] = -0.5 * (1 - pc_) * (1 - pc_) * pc_.log()
            else:
                sm = rows_softmax(x)
                want = np.empty((N,), dtype=object)
                for i in range(N):
                    pc_ = sm[i, y[i]]
                    want[i] = -0.5 * (1 - pc_) * (1 - pc_) * pc_.log()
            _eq_arrays(res, spec, p, data, want, which)
    elif which == "margin_ranking_loss":
        def body():
            a, b = symarr("a", (2,)), symarr("b", (2,))
            out = losses.margin_ranking_loss(a, b, np.array([1, -1]), 0.5, constant=True)
            return out.data, a, b

        for p in explore(body):
            if p.exc is not None:
                res["status"] = common.INCONCLUSIVE
                res["notes"].append("%s: %s" % (type(p.exc).__name__, p.exc))
                continue
            data, a, b = p.out
            yv = [1, -1]
            want = S0(0)
            for i in range(2):
                m = 0.5 - yv[i] * (a[i] - b[i])
                want = want + Sym(tm.ite(tm.lt(tm.const(0), m.t), m.t, tm.const(0)))
            want = want / 2
            _eq_arrays(res, spec, p, data, want, which)
    elif which in ("gru", "gru-s0"):
        def body():
            # gru-s0: a symbolic, non-zero initial state (the recurrence must start from it); one step (two steps from a symbolic
            # state did not finish within 20 minutes), batch of 2
            T, N, C, D = (2, 1, 2, 2) if which == "gru" else (1, 2, (2 if spec.get("tier") == "thorough" else 1), 2)
            X = symarr("X", (T, N, C))
            names = ["Uz", "Wz", "bz", "Ur", "Wr", "br", "Uh", "Wh", "bh"]
            shp = {"U": (C, D), "W": (D, D), "b": (D,)}
            P = {n: symarr(n, shp[n[0]]) for n in names}
            if which == "gru":
                out = gru(X, *[P[n] for n in names], constant=True)
            else:
                P["s0"] = symarr("s0", (N, D))
                out = gru(X, *[P[n] for n in names], s0=np.array(P["s0"], dtype=object), constant=True)
            return out.data, X, P

        for p in explore(body):
            if p.exc is not None:
                res["status"] = common.INCONCLUSIVE
                res["notes"].append("%s: %s" % (type(p.exc).__name__, p.exc))
                continue
            data, X, P = p.out
            T, N, C = X.shape
            D = P["bz"].shape[0]
            sig = lambda v: 1 / (1 + (-v).exp())
            s = [[(P["s0"][n, d] if "s0" in P else S0(0)) for d in range(D)] for n in range(N)]
            want = np.empty((T + 1, N, D), dtype=object)
            for n in range(N):
                for d in range(D):
                    want[0, n, d] = s[n][d]
            for t in range(T):
                for n in range(N):
                    z, r, h = [], [], []
                    for d in range(D):
                        az = P["bz"][d]
                        ar = P["br"][d]
                        for c in range(C):
                            az = az + X[t, n, c] * P["Uz"][c, d]
                            ar = ar + X[t, n, c] * P["Ur"][c, d]
                        for e in range(D):
                            az = az + s[n][e] * P["Wz"][e, d]
                            ar = ar + s[n][e] * P["Wr"][e, d]
                        z.append(sig(az))
                        r.append(sig(ar))
                    for d in range(D):
                        ah = P["bh"][d]
                        for c in range(C):
                            ah = ah + X[t, n, c] * P["Uh"][c, d]
                        for e in range(D):
                            ah = ah + (r[e] * s[n][e]) * P["Wh"][e, d]
                        h.append(ah.tanh())
                    s[n] = [(1 - z[d]) * h[d] + z[d] * s[n][d] for d in range(D)]
                    for d in range(D):
                        want[t + 1, n, d] = s[n][d]
            _eq_arrays(res, spec, p, data, want, which)
    res["sample"] = {"case": spec["name"], "formula": which}


# ------------------------------------------------------------------ driver
INT_LANE = """import sys
import numpy as np
import mygrad as mg
from mygrad.nnet.activations import softmax, logsoftmax
from mygrad.nnet.losses import softmax_crossentropy
np.seterr(all="ignore")
bad = []
DATA = {"int8": [[100, -100, 27], [-128, 127, 0]], "uint8": [[200, 10, 255], [0, 1, 2]], "int16": [[30000, -30000, 5], [1, 2, 3]], "int64": [[3, -4, 5], [0, 0, 0]],
        "bool": [[True, False, True], [False, False, False]]}
for dt, rows in DATA.items():
    x = np.array(rows, dtype=dt)
    xf = x.astype(np.float64)
    for name, f in (("softmax", lambda a: softmax(a)), ("softmax(axis=0)", lambda a: softmax(a, axis=0)), ("logsoftmax", lambda a: logsoftmax(a)),
                    ("softmax_crossentropy", lambda a: softmax_crossentropy(a, np.array([0, 2])))):
        if dt == "bool" and name == "softmax_crossentropy":
            continue
        try:
            got = np.asarray(f(x).data, dtype=np.float64); want = np.asarray(f(xf).data, dtype=np.float64)
        except Exception as e:
            bad.append((name, dt, "raised", type(e).__name__, str(e)[:100])); continue
        if got.shape != want.shape or not np.allclose(got, want, rtol=2e-3, atol=1e-6, equal_nan=False):
            bad.append((name, dt, got.tolist(), want.tolist()))
print(bad)
print('REPRODUCED' if bad else 'NOT-REPRODUCED'); sys.exit(1 if bad else 0)
"""


def run_intlane(spec, tier, mg):
    """integer-valued (machine integer!) inputs of the activations: the documented formula on the values, not on wrapped-around differences.
    A concrete lane on the unpatched library in a child process (the symbolic lanes compute over the reals, where nothing wraps)."""
    res = common.new_result()
    path = common.write_replay(PROP, "int_lane", INT_LANE)
    ok, out = common.run_replay(path, count=False)
    res["paths"] = 1
    if ok is True:
        res["status"] = common.VIOLATION
        res["violations"].append({"signature": "int-lane", "replay": path, "summary": "softmax/logsoftmax/softmax_crossentropy on small integer dtypes differ from the same call on float64: %s" % (out or "")[:300]})
    elif ok is None:
        res["status"] = common.INCONCLUSIVE
        res["notes"].append("integer lane did not run: %s" % (out or "")[-300:])
    res["sample"] = {"lane": "softmax, logsoftmax, softmax_crossentropy on int8/uint8/int16/int64/bool inputs at the ends of their ranges vs float64"}
    return res


def cases(tier):
    return swv_cases(tier) + accept_cases(tier) + value_cases(tier) + [{"kind": "intlane", "name": "int-lane"}]


def run_case(spec, tier):
    mg = common._WORKER["mg"]
    k = spec["kind"]
    if k == "swv":
        return run_swv(spec, tier)
    if k == "swv-concrete":
        return run_swv_concrete(spec, tier, mg)
    if k == "accept":
        return run_accept(spec, tier)
    if k == "intlane":
        return run_intlane(spec, tier, mg)
    return run_values(spec, tier, mg)


def main(argv=None):
    args = common.parse_args(argv)
    cs = cases(args.tier)
    if args.only:
        cs = [c for c in cs if args.only in c["name"]]

    def extra(results):
        ob = sum(r.get("obligations", 0) for r in results if r)
        di = sum(r.get("discharged", 0) for r in results if r)
        return {"obligations": ob, "discharged": di}

    describe = dict(
        level="other",
        rule="(a) one case per rank configuration (leading dims 0-2, windowed dims 1-2 [3 thorough]) and argument form; sizes, window, "
             "step, dilation are UNBOUNDED symbolic integers; (b) one case per layer/rank; (c) one case per configuration batch / formula (12 formulas incl. gru with a symbolic non-zero initial state)",
        explanation="(a),(b): the real sliding_window_view / ConvND.__call__ / MaxPoolND.__call__ validation code runs on z3 integers; "
                    "per path z3 discharges acceptance-rule, shape, offset-map, in-bounds, maximality and valid<=>accepted obligations for "
                    "all integer values; (c): forward terms on symbolic reals vs naive nested-loop evaluation of the documented formula",
        functions=["mygrad.nnet.layers.utils.sliding_window_view", "mygrad.nnet.layers.conv.ConvND.__call__",
                   "mygrad.nnet.layers.pooling.MaxPoolND.__call__", "mygrad.nnet.layers.batchnorm.BatchNorm.__call__",
                   "mygrad.nnet.layers.gru.GRUnit.__call__ (+ .py_func kernels)", "mygrad.nnet.activations.softmax.*", "mygrad.nnet.losses.*"],
        bounds={"(a)": "ranks as listed, integers unbounded", "(b)": "1-D (thorough 2-D), integers unbounded",
                "(c)": "conv 1-D x<=5(6) W<=3 S<=3 P<=1(2) D<=2, N=1 C=2 F=2; listed 2-D configs; pool x<=5; N,C<=3; gru T=2,N=1,C=2,D=2"},
        assumptions=["as_strided replaced by a recorder and builtin int shadowed inside mygrad.nnet.layers.utils (integer lane)",
                     "fake C-contiguous array with itemsize 8", "real arithmetic for (c)", "numba kernels as .py_func"],
        outside=["numba code generation", "dropout", "non-contiguous input in the symbolic lane (checked on concrete arrays of symbols)"],
    )
    return common.main(PROP, "harness.C16", cs, args.tier, args.seed, describe, extra_evidence=extra,
                       deadline_s=900 if args.tier == "quick" else 3000)


if __name__ == "__main__":
    sys.exit(main())
