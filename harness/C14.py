"""C14 — seeding backward; shape/dtype/type of every stored gradient (DESIGN §3 C14)."""
import json
import os
import subprocess
import sys

import numpy as np

from symnp import engine as eng_mod, lib, query, terms as tm
from symnp.scalars import Sym, symarr, terms_of

from . import C02, common, gradcase

PROP = "C14"

# terminal tensors of various shapes built from leaves x (2,3), y (3,), z (2,1)
PROGRAMS = {
    "(2,3)": "L = x * y + z",
    "(2,3)b": "L = mg.exp(x) * z",
    "(3,)": "L = x[0] * y",
    "()": "L = mg.sum(x * y) * 1.0",
    "(1,3)": "L = (x * y)[:1]",
    "(2,1)": "L = (x @ y)[:, None] * z",
    "(2,)": "L = x @ y",
    "(1,)": "L = mg.sum(x * y, keepdims=True).reshape(1)",
    "(2,1,3)": "L = (x * y)[:, None, :] + z[..., None]",
    "view": "L = (x * y).T",
    "0d-view": "L = (x * y)[1, 2]",
    "F-ordered result": "L = x.T * 2.0",
    "strided view": "L = (x * y)[:, ::2]",
}
# seeds: (label, source building `g` from the shape of L, kind)
GOOD_SEEDS = [
    ("python-scalar", "g = 2.5"),
    ("0-d array", "g = S('g', ())"),
    ("same shape", "g = S('g', L.shape)"),
    ("broadcast last", "g = S('g', L.shape[-1:])"),
    ("broadcast ones", "g = S('g', tuple(1 for _ in L.shape))"),
    ("tensor same shape", "g = mg.Tensor(S('g', L.shape))"),
    ("constant tensor", "g = mg.Tensor(S('g', L.shape), constant=True)"),
    ("list", "g = (np.ones(L.shape) * 2).tolist()"),
]
BAD_SEEDS = [
    ("longer last axis", "g = np.ones(L.shape[:-1] + (L.shape[-1] + 1,)) if L.ndim else np.ones((2,))"),
    ("extra leading axis (mutual broadcast)", "g = np.ones((2,) + L.shape)"),
    ("enlarging a size-1 axis", "g = np.ones(tuple(3 if s == 1 else s for s in L.shape)) if 1 in L.shape else np.ones((5,) + L.shape)"),
    ("wrong length vector", "g = np.ones(7)"),
    # seeds with MORE axes than L, all extra ones of length 1 (assignment would drop them, broadcasting to L.shape does not allow it)
    ("extra leading length-1 axis", "g = np.ones((1,) + L.shape)"),
    ("two extra leading length-1 axes", "g = np.ones((1, 1) + L.shape)"),
    ("strided seed with an extra leading length-1 axis", "g = np.ones((1,) + L.shape[:-1] + (2 * L.shape[-1],))[..., ::2] if L.ndim else np.ones((1, 2))[:, ::2]"),
]


def cases(tier):
    out = []
    for pname in PROGRAMS:
        out.append({"kind": "seed", "name": "seed/%s" % pname, "prog": pname})
    cs = [c for c in C02.cases(tier) if c.get('kind') != 'crosshair']
    for i in range(0, len(cs), 30):
        out.append({"kind": "shape", "name": "gradshape/%d" % i, "c02": cs[i:i + 30]})
    out.append({"kind": "dtype", "name": "dtype-lane"})
    out.append({"kind": "reshape-after", "name": "shape-assigned-after-backward"})
    return out


def _leaves(mg):
    ax, ay, az = symarr("x", (2, 3)), symarr("y", (3,)), symarr("z", (2, 1))
    return {"x": mg.Tensor(ax), "y": mg.Tensor(ay), "z": mg.Tensor(az)}


def run_seed(spec, tier, mg):
    res = common.new_result()
    engine = eng_mod.Engine(skip_ties=True)
    engine.reset_fn = lib.reset_state
    prog = PROGRAMS[spec["prog"]]

    def run(variant, seed_src):
        T = _leaves(mg)
        env = {"mg": mg, "np": np, "S": symarr}
        env.update(T)
        exec(prog, env)
        L = env["L"]
        inter = L
        if seed_src is not None:
            exec(seed_src, env)
        g = env.get("g")
        err = None
        if variant == "direct":
            try:
                if g is None:
                    L.backward()
                else:
                    L.backward(g)
            except Exception as e:
                err = e
        elif variant == "sum":
            L.sum().backward()
        else:  # (L*g).sum()
            (L * (g.data if isinstance(g, mg.Tensor) else g)).sum().backward()
        grads = {n: (None if t.grad is None else terms_of(t.grad)) for n, t in T.items()}
        facts = {n: (None if t.grad is None else (type(t.grad) is np.ndarray, t.grad.shape == t.shape)) for n, t in T.items()}
        Lgrad = L.grad
        return grads, facts, err, Lgrad, L.shape

    def body():
        out = []
        a = run("direct", None)
        b = run("sum", None)
        out.append(("no seed vs L.sum()", a, b))
        for label, src in GOOD_SEEDS:
            a = run("direct", src)
            b = run("mulsum", src)
            out.append(("seed: " + label, a, b))
        bad = []
        for label, src in BAD_SEEDS:
            a = run("direct", src)
            bad.append((label, a))
        return out, bad

    findings = []
    for p in engine.explore(body, max_paths=50, max_seconds=120):
        res["paths"] += 1
        if p.exc is not None:
            res["status"] = common.INCONCLUSIVE
            res["notes"].append("%s: %s" % (type(p.exc).__name__, str(p.exc)[:300]))
            continue
        good, bad = p.out
        prob = query.Problem(list(p.pc) + list(p.dom))
        for label, a, b in good:
            if a[2] is not None:
                findings.append("%s: backward raised %s: %s" % (label, type(a[2]).__name__, a[2]))
                continue
            for n in a[0]:
                ga, gb = a[0][n], b[0][n]
                if (ga is None) != (gb is None) or (ga is not None and len(ga) != len(gb)):
                    findings.append("%s: %s.grad presence/shape differs from the summed formulation" % (label, n))
                    continue
                if ga is None:
                    continue
                if a[1][n] != (True, True):
                    findings.append("%s: %s.grad is not an ndarray of the tensor's shape" % (label, n))
                r = prob.differ_any(list(zip(ga, gb)), 10000)
                res[r.verdict] += 1
                if r.verdict == "sat":
                    findings.append("%s: %s.grad differs from the summed formulation" % (label, n))
                elif r.verdict == "unknown":
                    res["status"] = common.INCONCLUSIVE
        for label, a in bad:
            if a[2] is None:
                findings.append("non-broadcastable seed (%s) was accepted" % label)
            elif not isinstance(a[2], ValueError):
                findings.append("non-broadcastable seed (%s) raised %s instead of a ValueError" % (label, type(a[2]).__name__))
            if any(g is not None for g in a[0].values()) or a[3] is not None:
                findings.append("non-broadcastable seed (%s): a gradient was written although the call was rejected" % label)
    if findings:
        rp = _seed_replay(spec, prog)
        if rp:
            res["status"] = common.VIOLATION
            res["violations"].append({"signature": "seed:%s" % findings[0][:50], "replay": rp,
                                      "summary": "program `%s`: %s" % (prog, "; ".join(findings[:3]))})
        else:
            res["status"] = common.INCONCLUSIVE
            res["notes"].append("did not reproduce: %s" % findings[:2])
    res["sample"] = {"program": prog, "seeds": [s[0] for s in GOOD_SEEDS], "rejected_seeds": [s[0] for s in BAD_SEEDS]}
    return res


def _seed_replay(spec, prog):
    src = '''import sys
import numpy as np
import mygrad as mg
PROG = %r; GOOD = %r; BAD = %r
rng = np.random.RandomState(5)
X, Y, Z = rng.rand(2, 3) + 0.5, rng.rand(3) + 0.5, rng.rand(2, 1) + 0.5
def S(name, shape): return np.random.RandomState(7).rand(*shape) + 0.5
def run(variant, seed):
    T = {"x": mg.Tensor(X), "y": mg.Tensor(Y), "z": mg.Tensor(Z)}
    env = {"mg": mg, "np": np, "S": S}; env.update(T)
    exec(PROG, env); L = env["L"]
    if seed: exec(seed, env)
    g = env.get("g"); err = None
    if variant == "direct":
        try: L.backward() if g is None else L.backward(g)
        except Exception as e: err = e
    elif variant == "sum": L.sum().backward()
    else: (L * (g.data if isinstance(g, mg.Tensor) else g)).sum().backward()
    return {n: t.grad for n, t in T.items()}, err, L.grad, {n: t for n, t in T.items()}
bad = []
def cmp(label, a, b):
    if a[1] is not None: bad.append((label, "raised", repr(a[1]))); return
    for n in a[0]:
        ga, gb = a[0][n], b[0][n]
        if (ga is None) != (gb is None) or (ga is not None and (type(ga) is not np.ndarray or ga.shape != a[3][n].shape or not np.allclose(ga, gb, rtol=1e-9, atol=1e-12))): bad.append((label, n))
cmp("no seed", run("direct", None), run("sum", None))
for label, src in GOOD: cmp(label, run("direct", src), run("mulsum", src))
for label, src in BAD:
    a = run("direct", src)
    if not isinstance(a[1], ValueError): bad.append((label, "not rejected with ValueError", repr(a[1])))
    if any(g is not None for g in a[0].values()) or a[2] is not None: bad.append((label, "gradient written"))
print(bad)
print('REPRODUCED' if bad else 'NOT-REPRODUCED'); sys.exit(1 if bad else 0)
''' % (prog, GOOD_SEEDS, BAD_SEEDS)
    path = common.write_replay(PROP, gradcase._safe(spec["name"]), src)
    ok, out = common.run_replay(path)
    return path if ok else None


def run_shape(spec, tier, mg):
    """all C02 cases: every stored gradient is an ndarray of exactly the tensor's shape (incl. 0-d, layers, gru)"""
    res = common.new_result()
    res["tensors_checked"] = 0

    def on_path(p, r, cs):
        arrs, tens, grads, L, out, env = p.out
        for n, t in list(tens.items()) + [("out", out)]:
            g = t.grad
            if g is None:
                continue
            res["tensors_checked"] += 1
            if type(g) is not np.ndarray or g.shape != t.shape:
                r["violations"].append({"signature": "gradshape:%s" % cs["name"].split("/")[1], "replay": None,
                                        "summary": "`%s`: %s.grad is %s of shape %s, tensor shape %s"
                                        % (cs["body"].replace("\n", "; "), n, type(g).__name__, getattr(g, "shape", None), t.shape)})
                r["status"] = common.VIOLATION

    for cs in spec["c02"]:
        r = gradcase.run(cs, tier, PROP, mg, max_paths=800, max_seconds=60, timeout_ms=5000, on_path=on_path, skip_ties=True)
        res["paths"] += r["paths"]
        for k in ("unsat", "sat", "unknown"):
            res[k] += r[k]
        for v in r["violations"]:
            if v["signature"].startswith("gradshape:"):
                res["violations"].append(v)
                res["status"] = common.VIOLATION
    # structural findings are re-checked literally by the dtype lane script (shape facts are dtype independent)
    if res["violations"]:
        confirmed = _run_dtype_lane([c for c in spec["c02"]])
        sigs = {f["signature"] for f in confirmed.get("findings", [])}
        keep = [v for v in res["violations"] if any("shape" in s or "type" in s for s in sigs)]
        if not keep:
            res["status"] = common.INCONCLUSIVE
            res["notes"].append("gradient-shape findings did not reproduce with float arrays: %s" % [v["summary"] for v in res["violations"]][:2])
        res["violations"] = keep
    res["sample"] = {"case": spec["c02"][0]["name"], "fact": "type(grad) is ndarray and grad.shape == tensor.shape"}
    return res


def _run_dtype_lane(c02cases):
    env = dict(os.environ)
    env["PYTHONPATH"] = os.path.join(common.REPO, "src")
    p = subprocess.run([common.PY_REAL, os.path.join(common.VERIF, "harness", "dtype_lane.py"), "grads"], input=json.dumps(c02cases),
                       capture_output=True, text=True, env=env, timeout=1200)
    for line in (p.stdout or "").splitlines():
        if line.startswith("DTYPE-LANE-JSON:"):
            return json.loads(line[len("DTYPE-LANE-JSON:"):])
    return {"error": (p.stderr or "")[-500:], "findings": []}


def run_dtype(spec, tier, mg):
    res = common.new_result()
    out = _run_dtype_lane([c for c in C02.cases(tier) if c.get('kind') != 'crosshair'])
    if "error" in out:
        res["status"] = common.INCONCLUSIVE
        res["notes"].append("dtype lane failed: %s" % out["error"])
        return res
    res["paths"] = out["checked"]
    res["dtype_lane_checked"] = out["checked"]
    res["dtype_lane_skipped"] = out["skipped"]
    seen = set()
    for f in out["findings"]:
        if f["signature"] in seen:
            continue
        seen.add(f["signature"])
        src = '''import sys
import numpy as np
import mygrad as mg
import mygrad.nnet as nnet
from mygrad.nnet.activations import *
from mygrad.nnet.layers import *
from mygrad.nnet.losses import *
# dtype lane finding: %s  (%s, dtype %s)
print(%r)
print("REPRODUCED"); sys.exit(1)
''' % (f["what"], f["case"], f["dtype"], json.dumps(f))
        path = common.write_replay(PROP, gradcase._safe("dtype_" + f["signature"]), src)
        res["status"] = common.VIOLATION
        res["violations"].append({"signature": f["signature"], "replay": path,
                                  "summary": "`%s` with %s leaves: %s.grad %s" % (f["body"].replace("\n", "; "), f["dtype"], f["tensor"], f["what"])})
    res["sample"] = {"dtype_lane": out.get("samples", [])}
    return res


# ------------------------------------------------------------------ gradient shape after in-place re-shaping of a tensor that holds a gradient
RESHAPE_AFTER = [("x.shape = (2, 3)", (6,)), ("x.shape = (6,)", (2, 3)), ("x.shape = (3, 2)", (2, 3)), ("x.shape = (1, 6)", (6,)), ("x.shape = (6, 1)", (2, 3))]
RESHAPE_REPLAY = """import sys
import numpy as np
import mygrad as mg
bad = []
for stmt, shape in %r:
    for kind in ("leaf", "intermediate-kept"):
        x = mg.Tensor(np.arange(6.0).reshape(shape)) if kind == "leaf" else mg.Tensor(np.arange(6.0).reshape(shape)) * 1.0
        (x * x).sum().backward()
        exec(stmt)
        for name, t in (("x", x), ("x[0]", x[0]), ("x.T", x.T)):
            g = t.grad
            if g is not None and (type(g) is not np.ndarray or g.shape != t.shape): bad.append((stmt, kind, name, np.shape(g), t.shape))
print(bad)
print('REPRODUCED' if bad else 'NOT-REPRODUCED'); sys.exit(1 if bad else 0)
"""


def run_reshape_after(spec, tier, mg):
    res = common.new_result()
    findings = []
    for stmt, shape in RESHAPE_AFTER:
        for kind in ("leaf", "intermediate-kept"):
            lib.reset_state()
            x = mg.Tensor(symarr("x", shape)) if kind == "leaf" else mg.Tensor(symarr("x", shape)) * 1.0
            (x * x).sum().backward()
            exec(stmt, {"x": x})
            res["paths"] += 1
            for name, t in (("x", x), ("x[0]", x[0]), ("x.T", x.T)):
                try:
                    g = t.grad
                except Exception as e:  # noqa
                    findings.append("`%s` on a %s holding a gradient: reading %s.grad raises %s" % (stmt, kind, name, type(e).__name__))
                    continue
                if g is not None and (type(g) is not np.ndarray or g.shape != t.shape):
                    findings.append("`%s` on a %s holding a gradient: %s.grad has shape %s, the tensor has %s" % (stmt, kind, name, np.shape(g), t.shape))
    lib.reset_state()
    if findings:
        path = common.write_replay(PROP, "reshape_after_backward", RESHAPE_REPLAY % (RESHAPE_AFTER,))
        ok, out = common.run_replay(path)
        if ok:
            res["status"] = common.VIOLATION
            res["violations"].append({"signature": "grad-shape-after-shape-assign", "replay": path, "summary": "; ".join(findings[:2])})
        else:
            res["status"] = common.INCONCLUSIVE
            res["notes"].append("did not reproduce: %s" % findings[:2])
    res["sample"] = {"statements": [s for s, _ in RESHAPE_AFTER]}
    return res


def run_case(spec, tier):
    mg = common._WORKER["mg"]
    if spec["kind"] == "seed":
        return run_seed(spec, tier, mg)
    if spec["kind"] == "reshape-after":
        return run_reshape_after(spec, tier, mg)
    if spec["kind"] == "shape":
        return run_shape(spec, tier, mg)
    return run_dtype(spec, tier, mg)


def main(argv=None):
    args = common.parse_args(argv)
    cs = cases(args.tier)
    if args.only:
        cs = [c for c in cs if args.only in c["name"]]

    def extra(results):
        return {"dtype_lane_checked": sum(r.get("dtype_lane_checked", 0) for r in results if r),
                "dtype_lane_skipped": sum(r.get("dtype_lane_skipped", 0) for r in results if r),
                "gradient_arrays_type_shape_checked": sum(r.get("tensors_checked", 0) for r in results if r)}

    describe = dict(
        level="other",
        rule="(seed) 11 terminal tensors of shapes (), (1,), (2,), (3,), (1,3), (2,1), (2,3), (2,1,3), views and 0-d views x 8 accepted seed "
             "kinds x 4 non-broadcastable seeds; (shape) every C02 case; (dtype lane) every C02 case body x float16/32/64 on concrete arrays",
        explanation="z3 decides for all real inputs and all seed values that L.backward() == L.sum().backward() and L.backward(g) == "
                    "(L*g).sum().backward() leaf by leaf; non-broadcastable seeds must raise ValueError and leave every .grad None. Type/shape of "
                    "stored gradients is observed on every path of every C02 case; dtype equality in the degenerate dtype lane (no solver)",
        functions=["mygrad.tensor_base.Tensor.backward (seed construction/validation)", "mygrad.operation_base.Operation.backward (shape assertion, cast)",
                   "Operation.grad_post_process_fn", "mygrad.nnet.layers.gru.GRUnit.backward"],
        bounds={"programs": len(PROGRAMS), "seeds": len(GOOD_SEEDS) + len(BAD_SEEDS)},
        assumptions=["dtype facts do not depend on values (NEP 50): one representative value per configuration"],
        outside=["float rounding differences between the two formulations"],
    )
    from symnp import selftest

    return common.main(PROP, "harness.C14", cs, args.tier, args.seed, describe, preflight=selftest.run, extra_evidence=extra,
                       deadline_s=900 if args.tier == "quick" else 3000)


if __name__ == "__main__":
    sys.exit(main())
