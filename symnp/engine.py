"""Path exploration by deterministic re-execution (DFS over decision prefixes).

Decision points: ``SymBool.__bool__`` (data branch, feasibility asked of z3 under the current path
condition), ``choose(n)`` (selector: finite-domain program/configuration input, no solver call) and
``SymInt.__index__`` (concretisation by forking over the feasible values, only when finitely many).
"""
import time

import z3

from . import terms as tm
from .scalars import SymBool, _EngineRef


class Budget(Exception):
    pass


class Unbounded(Exception):
    """SymInt concretised without a finite range: harness error, never success."""


class Path:
    __slots__ = ("out", "pc", "dom", "oblig", "boundary", "decisions", "exc", "unknown_feas", "selectors", "_domseen")

    def __init__(self):
        self.out = None
        self.pc = []  # list of conditions (terms.T or z3 BoolRef) decided on this path
        self.dom = []  # definedness / domain conditions collected while executing
        self.oblig = []  # the subset of `dom` that constrains the INPUTS (denominator != 0, log argument > 0, ...), not facts about UFs
        self.boundary = []  # equality atoms taken (non-differentiable boundary)
        self.decisions = []
        self.exc = None
        self.unknown_feas = 0
        self.selectors = []
        self._domseen = set()


class Engine:
    def __init__(self, feas_timeout_ms=2000, skip_ties=False):
        self.feas_timeout_ms = feas_timeout_ms
        # skip_ties: do not explore the measure-zero tie region of a comparison of reals when a strict
        # region is feasible (used where tie paths carry no claim anyway); counted in ties_skipped
        self.skip_ties = skip_ties
        self.ties_skipped = 0
        self.solver_time = 0.0
        self.feas_queries = 0
        self.reset_fn = None
        self._prefix = []
        self._pos = 0
        self._todo = []
        self.path = None
        self.solver = None
        self.assumptions = []

    # ------------------------------------------------------------------ low-level
    def _z3(self, c):
        return tm.to_z3(c)

    def _check(self, extra):
        t0 = time.time()
        self.solver.push()
        self.solver.add(self._z3(extra))
        r = self.solver.check()
        self.solver.pop()
        self.solver_time += time.time() - t0
        self.feas_queries += 1
        return r

    def _take(self, cond):
        self.path.pc.append(cond)
        self.solver.add(self._z3(cond))

    def assume(self, cond):
        """harness-side precondition (domain of the claim); recorded as part of the path condition"""
        if isinstance(cond, SymBool):
            cond = cond.t
        self._take(cond)

    def domain(self, cond, fact=False):
        """definedness condition met while executing (denominator != 0, log argument > 0 ...); fact=True: a true statement about an
        uninterpreted function (exp > 0, sqrt >= 0), recorded to help feasibility, not an obligation on the inputs"""
        if cond.op == "true" or cond.uid in self.path._domseen:
            return
        self.path._domseen.add(cond.uid)
        self.path.dom.append(cond)
        if not fact:
            self.path.oblig.append(cond)
        self.solver.add(self._z3(cond))

    # ------------------------------------------------------------------ decisions
    def _next(self, nalt, pick_first):
        """returns index of alternative to take at this decision point"""
        if self._pos < len(self._prefix):
            k = self._prefix[self._pos]
        else:
            alts = pick_first()
            if not alts:
                raise Infeasible()
            k = alts[0]
            self._prefix.append(k)
            for other in alts[1:]:
                self._todo.append(self._prefix[:-1] + [other])
        self._pos += 1
        return k

    def decide(self, sb):
        atom = sb.atom
        if atom is not None and atom[0] in ("<", "<=", "==", "!="):
            return self._decide_atom(sb, atom)
        t = sb.t

        def feas():
            out = []
            for k, c in ((1, t), (0, _neg(t))):
                r = self._check(c)
                if r == z3.unknown:
                    self.path.unknown_feas += 1
                if r != z3.unsat:
                    out.append(k)
            return out

        k = self._next(2, feas)
        self.path.decisions.append(("b", k))
        self._take(t if k else _neg(t))
        return bool(k)

    def _decide_atom(self, sb, atom):
        kind, a, b = atom
        lt, eq, gt = tm.lt(a, b), tm.eq(a, b), tm.lt(b, a)
        # outcome of the original comparison on each of the three regions
        val = {
            "<": (True, False, False),
            "<=": (True, True, False),
            "==": (False, True, False),
            "!=": (True, False, True),
        }[kind]
        conds = (lt, eq, gt)

        def feas():
            out = []
            for k in (0, 2, 1):  # strict regions first, tie last
                if k == 1 and self.skip_ties and out:
                    self.ties_skipped += 1
                    continue
                r = self._check(conds[k])
                if r == z3.unknown:
                    self.path.unknown_feas += 1
                if r != z3.unsat:
                    out.append(k)
            return out

        k = self._next(3, feas)
        self.path.decisions.append(("c", k))
        self._take(conds[k])
        if k == 1:
            self.path.boundary.append(eq)
        return val[k]

    def choose(self, n, label=None):
        """selector with n alternatives (program/configuration input)"""
        k = self._next(n, lambda: list(range(n)))
        self.path.decisions.append(("s", k))
        self.path.selectors.append((label, k))
        return k

    def concretize_int(self, t, limit=64):
        def feas():
            vals = []
            self.solver.push()
            while len(vals) <= limit:
                t0 = time.time()
                r = self.solver.check()
                self.solver_time += time.time() - t0
                if r != z3.sat:
                    break
                v = self.solver.model().eval(t, model_completion=True).as_long()
                vals.append(v)
                self.solver.add(t != v)
            self.solver.pop()
            if len(vals) > limit:
                raise Unbounded("integer %s has no finite range under the path condition" % t)
            return sorted(vals)

        if self._pos < len(self._prefix):
            v = self._prefix[self._pos]
            self._pos += 1
        else:
            vals = feas()
            if not vals:
                raise Infeasible()
            v = vals[0]
            self._prefix.append(v)
            for o in vals[1:]:
                self._todo.append(self._prefix[:-1] + [o])
            self._pos += 1
        self.path.decisions.append(("i", v))
        self._take(t == v)
        return v

    # ------------------------------------------------------------------ driver
    def explore(self, fn, max_paths=10000, max_seconds=600.0, catch=(Exception,)):
        """yield a Path per feasible execution of fn()"""
        _EngineRef.engine = self
        self._todo = [[]]
        n = 0
        t0 = time.time()
        try:
            while self._todo:
                if n >= max_paths or time.time() - t0 > max_seconds:
                    raise Budget("path budget exhausted (%d paths, %.1fs)" % (n, time.time() - t0))
                self._prefix = self._todo.pop()
                self._pos = 0
                self.path = Path()
                self.solver = z3.Solver()
                self.solver.set("timeout", self.feas_timeout_ms)
                for a in self.assumptions:
                    self.solver.add(a)
                if self.reset_fn is not None:
                    self.reset_fn()
                try:
                    self.path.out = fn()
                except Infeasible:
                    continue
                except (Budget, Unbounded):
                    raise
                except catch as e:  # library exceptions are outcomes
                    self.path.exc = e
                n += 1
                yield self.path
        finally:
            _EngineRef.engine = None


class Infeasible(BaseException):
    pass


def _neg(t):
    if isinstance(t, tm.T):
        return tm.not_(t)
    return z3.Not(t)


def choose(n, label=None):
    return _EngineRef.engine.choose(n, label)


def pick(seq, label=None):
    seq = list(seq)
    return seq[_EngineRef.engine.choose(len(seq), label)]


def assume(c):
    _EngineRef.engine.assume(c)
