"""Reference differentiator over the term DAG (the trusted base of C01/C02/C05/C14).

``grad(L, vars)`` returns dL/dv for each variable by forward-mode sweeps (one per variable) over the
DAG of the term that *the implementation's own forward pass* produced.
"""
from . import terms as tm

c = tm.const


def _sq(a):
    return tm.mul(a, a)


# d f(a) = TABLE[f](args, f(args))[i] * d a_i
def _t_exp(a, fa):
    return (fa,)


def _t_log(a, fa):
    return (tm.div(c(1), a[0]),)


def _t_sin(a, fa):
    return (tm.uf("cos", a[0]),)


def _t_cos(a, fa):
    return (tm.neg(tm.uf("sin", a[0])),)


def _t_arcsin(a, fa):
    return (tm.div(c(1), tm.uf("sqrt", tm.sub(c(1), _sq(a[0])))),)


def _t_arccos(a, fa):
    return (tm.neg(tm.div(c(1), tm.uf("sqrt", tm.sub(c(1), _sq(a[0]))))),)


def _t_arctan(a, fa):
    return (tm.div(c(1), tm.add(c(1), _sq(a[0]))),)


def _t_arcsinh(a, fa):
    return (tm.div(c(1), tm.uf("sqrt", tm.add(c(1), _sq(a[0])))),)


def _t_arccosh(a, fa):
    return (tm.div(c(1), tm.uf("sqrt", tm.sub(_sq(a[0]), c(1)))),)


def _t_arctanh(a, fa):
    return (tm.div(c(1), tm.sub(c(1), _sq(a[0]))),)


def _t_sqrt(a, fa):
    return (tm.div(c(1), tm.mul(c(2), fa)),)


def _t_cbrt(a, fa):
    return (tm.div(c(1), tm.mul(c(3), tm.mul(fa, fa))),)


def _t_pow(a, fa):
    x, y = a
    return (
        tm.mul(y, tm.uf("POW", x, tm.sub(y, c(1)))),
        tm.mul(fa, tm.uf("log", x)),
    )


def _t_arctan2(a, fa):
    y, x = a
    den = tm.add(_sq(x), _sq(y))
    return (tm.div(x, den), tm.neg(tm.div(y, den)))


TABLE = {
    "exp": _t_exp,
    "log": _t_log,
    "sin": _t_sin,
    "cos": _t_cos,
    "arcsin": _t_arcsin,
    "arccos": _t_arccos,
    "arctan": _t_arctan,
    "arcsinh": _t_arcsinh,
    "arccosh": _t_arccosh,
    "arctanh": _t_arctanh,
    "sqrt": _t_sqrt,
    "cbrt": _t_cbrt,
    "POW": _t_pow,
    "arctan2": _t_arctan2,
}

# conditions under which the table row is the derivative (collected into `dom` by d())
def _domain(name, a):
    z, o = c(0), c(1)
    if name == "log":
        return [tm.lt(z, a[0])]
    if name in ("arcsin", "arccos", "arctanh"):
        return [tm.lt(c(-1), a[0]), tm.lt(a[0], o)]
    if name == "arccosh":
        return [tm.lt(o, a[0])]
    if name == "sqrt":
        return [tm.lt(z, a[0])]
    if name == "cbrt":
        return [tm.ne(a[0], z)]
    if name == "POW":
        return [tm.lt(z, a[0])]
    if name == "arctan2":
        return [tm.ne(tm.add(_sq(a[0]), _sq(a[1])), z)]
    return []


def d(t, v, memo, dom):
    """derivative of term t w.r.t. variable term v (forward mode, memoised per (v))"""
    for n in tm.postorder([t]):
        if n.uid in memo or n.sort == "B":
            continue
        op = n.op
        if op == "c":
            r = c(0)
        elif op == "v":
            r = c(1) if n is v else c(0)
        else:
            a = n.args
            if op == "+":
                r = tm.add(memo[a[0].uid], memo[a[1].uid])
            elif op == "-":
                r = tm.sub(memo[a[0].uid], memo[a[1].uid])
            elif op == "neg":
                r = tm.neg(memo[a[0].uid])
            elif op == "*":
                da, db = memo[a[0].uid], memo[a[1].uid]
                r = tm.add(tm.mul(da, a[1]), tm.mul(a[0], db))
            elif op == "/":
                da, db = memo[a[0].uid], memo[a[1].uid]
                if tm.is_zero(db):
                    r = tm.div(da, a[1]) if not tm.is_zero(da) else c(0)
                else:
                    r = tm.div(tm.sub(tm.mul(da, a[1]), tm.mul(a[0], db)), tm.mul(a[1], a[1]))
                    dom.append(tm.ne(a[1], c(0)))
            elif op == "ite":
                da, db = memo[a[1].uid], memo[a[2].uid]
                r = tm.ite(a[0], da, db)
                if da is not db or a[1] is not a[2]:
                    # the branch must be locally constant: exclude the boundary of the condition
                    for at in tm.postorder([a[0]]):
                        if at.op in ("<", "<=", "=="):
                            dom.append(tm.ne(at.args[0], at.args[1]))
            elif op == "uf":
                ds = [memo[x.uid] for x in a]
                if all(tm.is_zero(x) for x in ds):
                    r = c(0)
                else:
                    rows = TABLE[n.val](a, n)
                    dom.extend(_domain(n.val, a))
                    r = c(0)
                    for row, dx in zip(rows, ds):
                        if not tm.is_zero(dx):
                            r = tm.add(r, tm.mul(row, dx))
            else:
                raise NotImplementedError("d/dx of %s" % op)
        memo[n.uid] = r
    return memo[t.uid]


def grad(L, var_terms):
    """returns ([dL/dv for v in var_terms], extra definedness conditions)"""
    dom = []
    out = []
    for v in var_terms:
        out.append(d(L, v, {}, dom))
    # dedupe dom
    seen = set()
    dd = []
    for x in dom:
        if x.uid not in seen:
            seen.add(x.uid)
            dd.append(x)
    return out, dd


def weighted_sum(out_terms, seed_terms):
    L = c(0)
    for o, g in zip(out_terms, seed_terms):
        L = tm.add(L, tm.mul(g, o))
    return L
