"""Symbolic scalars stored inside ``dtype=object`` ndarrays.

``Sym``     – a real number (term DAG from symnp.terms)
``SymBool`` – a condition; ``bool()`` on it is *the* decision point of the engine
``SymInt``  – an unbounded integer (z3 Int), used by the integer lane

The real NumPy object loops call the dunder / named methods below on every element, so MyGrad's
source runs unmodified while each array element is a term over the input symbols.
"""
import fractions
import math
import numbers

import numpy as np
import z3

from . import terms as tm
from .terms import T

# --------------------------------------------------------------------------- float lifting
_F = float
KNOWN_FLOATS = {}


def _known():
    if KNOWN_FLOATS:
        return KNOWN_FLOATS
    PI = tm.var("PI!")
    LN2 = tm.uf("log", tm.const(2))
    LN10 = tm.uf("log", tm.const(10))
    E = tm.uf("exp", tm.const(1))
    K = KNOWN_FLOATS
    K[_F(np.pi)] = PI
    K[_F(np.pi / 2)] = tm.div(PI, tm.const(2))
    K[_F(2 * np.pi)] = tm.mul(tm.const(2), PI)
    K[_F(np.pi**2)] = tm.mul(PI, PI)
    K[_F(1 / np.pi)] = tm.div(tm.const(1), PI)
    K[_F(np.log(2))] = LN2
    K[_F(np.log(10))] = LN10
    K[_F(1 / np.log(2))] = tm.div(tm.const(1), LN2)
    K[_F(1 / np.log(10))] = tm.div(tm.const(1), LN10)
    K[_F(np.e)] = E
    return K


def lift_float(o):
    o = _F(o)
    if o != o or o in (_F("inf"), _F("-inf")):
        raise NonReal("non-finite float constant %r met in the real lane" % o)
    K = _known()
    if tm._TABLE.get(("v", "PI!", ())) is None:  # table was reset
        KNOWN_FLOATS.clear()
        K = _known()
    t = K.get(o)
    if t is not None:
        return t
    t = K.get(-o)
    if t is not None:
        return tm.neg(t)
    fr = fractions.Fraction(o).limit_denominator(10**6)
    if _F(fr) == o:
        return tm.const(fr)
    return tm.const(fractions.Fraction(o))


class NonReal(Exception):
    """A NaN/inf constant reached the real lane (outside the semantics)."""


# --------------------------------------------------------------------------- engine hook
class _EngineRef:
    engine = None


def engine():
    return _EngineRef.engine


# --------------------------------------------------------------------------- SymBool
class SymBool:
    __slots__ = ("t", "atom")

    def __init__(self, t, atom=None):
        self.t = t
        # atom = (kind, a, b) for comparisons of reals: enables 3-way forking with explicit ties
        self.atom = atom

    def __bool__(self):
        t = self.t
        if isinstance(t, T):
            if t.op == "true":
                return True
            if t.op == "false":
                return False
        else:
            s = z3.simplify(t)
            if z3.is_true(s):
                return True
            if z3.is_false(s):
                return False
        return _EngineRef.engine.decide(self)

    def _other(self, o):
        if isinstance(o, SymBool):
            return o.t
        if isinstance(o, (bool, np.bool_)):
            return tm.true() if o else tm.false()
        return None

    def _mix(self, o, fT, fZ):
        ot = self._other(o)
        if ot is None:
            return NotImplemented
        a, b = self.t, ot
        if isinstance(a, T) and isinstance(b, T):
            return SymBool(fT(a, b))
        return SymBool(fZ(tm.to_z3(a), tm.to_z3(b)))

    def __and__(self, o):
        return self._mix(o, tm.and_, z3.And)

    __rand__ = __and__

    def __or__(self, o):
        return self._mix(o, tm.or_, z3.Or)

    __ror__ = __or__

    def __invert__(self):
        if isinstance(self.t, T):
            return SymBool(tm.not_(self.t))
        return SymBool(z3.Not(self.t))

    def logical_not(self):
        return ~self

    def __repr__(self):
        return "SymBool(%s)" % (self.t,)

    __hash__ = None

    def __eq__(self, o):
        ot = self._other(o)
        if ot is None:
            return NotImplemented
        return (self & o) | (~self & ~(o if isinstance(o, SymBool) else SymBool(ot)))

    # arithmetic with reals: mask * grad  ->  If(c, grad, 0)   (no fork)
    def __mul__(self, o):
        ot = Sym.lift(o)
        if ot is None:
            return NotImplemented
        return Sym(tm.ite(self._t(), ot, tm.const(0)))

    __rmul__ = __mul__

    def _t(self):
        if not isinstance(self.t, T):
            raise TypeError("integer-lane condition used in the real lane")
        return self.t


# --------------------------------------------------------------------------- Sym
class Sym:
    """symbolic real element; mimics a NumPy scalar where NumPy hands back a bare element"""

    __slots__ = ("t",)
    shape = ()
    ndim = 0
    size = 1
    base = None
    dtype = np.dtype(object)
    flags = np.float64(0).flags  # what a NumPy scalar reports: contiguous, owns data, not writeable
    strides = ()
    T = property(lambda s: s)
    real = property(lambda s: s)

    def __init__(self, t):
        self.t = t if isinstance(t, T) else Sym.lift(t)

    # -- numpy-scalar mimicry
    def conjugate(s):
        return s

    conj = conjugate

    def astype(s, *a, **k):
        return s

    def copy(s):
        return s

    def item(s):
        return s

    def reshape(s, *shape):
        return np.asarray(s, dtype=object).reshape(*shape)

    def squeeze(s, *a, **k):
        return s

    def sum(s, *a, **k):
        return s

    def __getitem__(s, ix):
        # numpy scalars accept (), None, ... as indices
        a = np.empty((), dtype=object)
        a[()] = s
        return a[ix]

    def __copy__(s):
        return s

    def __deepcopy__(s, memo):
        return s

    @staticmethod
    def lift(o):
        if isinstance(o, Sym):
            return o.t
        if isinstance(o, (bool, np.bool_)):
            return tm.const(int(o))
        if isinstance(o, (int, np.integer)):
            return tm.const(int(o))
        if isinstance(o, (float, np.floating)):
            return lift_float(o)
        if isinstance(o, fractions.Fraction):
            return tm.const(o)
        if isinstance(o, SymBool):
            return tm.ite(o._t(), tm.const(1), tm.const(0))
        if isinstance(o, np.ndarray) and o.ndim == 0:
            return Sym.lift(o[()])
        return None

    def _bin(self, o, f, rev=False):
        ot = Sym.lift(o)
        if ot is None:
            return NotImplemented
        return Sym(f(ot, self.t) if rev else f(self.t, ot))

    def __add__(s, o):
        return s._bin(o, tm.add)

    def __radd__(s, o):
        return s._bin(o, tm.add, True)

    def __sub__(s, o):
        return s._bin(o, tm.sub)

    def __rsub__(s, o):
        return s._bin(o, tm.sub, True)

    def __mul__(s, o):
        return s._bin(o, tm.mul)

    def __rmul__(s, o):
        return s._bin(o, tm.mul, True)

    def __truediv__(s, o):
        ot = Sym.lift(o)
        if ot is None:
            return NotImplemented
        return Sym(_div(s.t, ot))

    def __rtruediv__(s, o):
        ot = Sym.lift(o)
        if ot is None:
            return NotImplemented
        return Sym(_div(ot, s.t))

    def __neg__(s):
        return Sym(tm.neg(s.t))

    def __pos__(s):
        return s

    def __abs__(s):
        return Sym(tm.ite(tm.le(tm.const(0), s.t), s.t, tm.neg(s.t)))

    def __pow__(s, o, mod=None):
        ot = Sym.lift(o)
        if ot is None:
            return NotImplemented
        return Sym(_pow(s.t, ot))

    def __rpow__(s, o, mod=None):
        ot = Sym.lift(o)
        if ot is None:
            return NotImplemented
        return Sym(_pow(ot, s.t))

    # -- comparisons
    def _cmp(s, o, kind):
        ot = Sym.lift(o)
        if ot is None:
            return NotImplemented
        a, b = s.t, ot
        if a is b and a.op != "c":
            # comparing a value with itself: a structural tie (e.g. maximum(x, max(x)) at the argmax)
            e = _EngineRef.engine
            if e is not None and e.path is not None:
                e.path.boundary.append(tm._mk("==", (a, a), None, "B"))
        if kind == "<":
            return SymBool(tm.lt(a, b), ("<", a, b))
        if kind == "<=":
            return SymBool(tm.le(a, b), ("<=", a, b))
        if kind == ">":
            return SymBool(tm.lt(b, a), ("<", b, a))
        if kind == ">=":
            return SymBool(tm.le(b, a), ("<=", b, a))
        if kind == "==":
            return SymBool(tm.eq(a, b), ("==", a, b))
        return SymBool(tm.ne(a, b), ("!=", a, b))

    def __lt__(s, o):
        return s._cmp(o, "<")

    def __le__(s, o):
        return s._cmp(o, "<=")

    def __gt__(s, o):
        return s._cmp(o, ">")

    def __ge__(s, o):
        return s._cmp(o, ">=")

    def __eq__(s, o):
        return s._cmp(o, "==")

    def __ne__(s, o):
        return s._cmp(o, "!=")

    __hash__ = None

    def __bool__(s):
        if s.t.op == "c":
            return s.t.val != 0
        return bool(s != 0)

    def __float__(s):
        if s.t.op == "c":
            return float(s.t.val)
        raise TypeError("symbolic real cannot be realised as float")

    def __int__(s):
        if s.t.op == "c" and s.t.val.denominator == 1:
            return int(s.t.val)
        raise TypeError("symbolic real cannot be realised as int")

    def __repr__(s):
        return "Sym(%s)" % tm.show(s.t, 4)

    def __round__(s, n=None):
        raise TypeError("round of symbolic real")

    # -- what NumPy's object loops look up by name
    def exp(s):
        return Sym(_exp(s.t))

    def log(s):
        return Sym(_log(s.t))

    def exp2(s):
        return Sym(_exp(tm.mul(s.t, _known()[_F(np.log(2))])))

    def expm1(s):
        return Sym(tm.sub(_exp(s.t), tm.const(1)))

    def log2(s):
        return Sym(tm.div(_log(s.t), _ln(2)))

    def log10(s):
        return Sym(tm.div(_log(s.t), _ln(10)))

    def log1p(s):
        return Sym(_log(tm.add(tm.const(1), s.t)))

    def sqrt(s):
        return Sym(_sqrt(s.t))

    def cbrt(s):
        return Sym(_cbrt(s.t))

    def square(s):
        return Sym(tm.mul(s.t, s.t))

    def reciprocal(s):
        return Sym(_div(tm.const(1), s.t))

    def sin(s):
        return Sym(tm.uf("sin", s.t))

    def cos(s):
        return Sym(tm.uf("cos", s.t))

    def tan(s):
        return Sym(_div(tm.uf("sin", s.t), tm.uf("cos", s.t)))

    def arcsin(s):
        _dom(tm.and_(tm.le(tm.const(-1), s.t), tm.le(s.t, tm.const(1))))
        return Sym(tm.uf("arcsin", s.t))

    def arccos(s):
        _dom(tm.and_(tm.le(tm.const(-1), s.t), tm.le(s.t, tm.const(1))))
        return Sym(tm.uf("arccos", s.t))

    def arctan(s):
        return Sym(tm.uf("arctan", s.t))

    def arctan2(s, o):
        ot = Sym.lift(o)
        return Sym(tm.uf("arctan2", s.t, ot))

    def sinh(s):
        e = _exp(s.t)
        return Sym(tm.div(tm.sub(e, _div(tm.const(1), e)), tm.const(2)))

    def cosh(s):
        e = _exp(s.t)
        return Sym(tm.div(tm.add(e, _div(tm.const(1), e)), tm.const(2)))

    def tanh(s):
        e = _exp(s.t)
        ie = _div(tm.const(1), e)
        return Sym(_div(tm.sub(e, ie), tm.add(e, ie)))

    def arcsinh(s):
        return Sym(tm.uf("arcsinh", s.t))

    def arccosh(s):
        _dom(tm.le(tm.const(1), s.t))
        return Sym(tm.uf("arccosh", s.t))

    def arctanh(s):
        _dom(tm.and_(tm.lt(tm.const(-1), s.t), tm.lt(s.t, tm.const(1))))
        return Sym(tm.uf("arctanh", s.t))

    def logaddexp(s, o):
        ot = Sym.lift(o)
        return Sym(_log(tm.add(_exp(s.t), _exp(ot))))

    def logaddexp2(s, o):
        ot = Sym.lift(o)
        ln2 = _ln(2)
        return Sym(tm.div(_log(tm.add(_exp(tm.mul(s.t, ln2)), _exp(tm.mul(ot, ln2)))), ln2))

    def fabs(s):
        return abs(s)

    def sign(s):
        z = tm.const(0)
        return Sym(tm.ite(tm.lt(z, s.t), tm.const(1), tm.ite(tm.lt(s.t, z), tm.const(-1), z)))

    def is_integer(s):
        return s.t.op == "c" and s.t.val.denominator == 1


numbers.Real.register(Sym)


def _ln(k):
    return _log(tm.const(k))


_MATHF = {"exp": math.exp, "log": math.log, "sqrt": math.sqrt, "sin": math.sin, "cos": math.cos,
          "arctan": math.atan, "arcsin": math.asin, "arccos": math.acos}


def _register_const(name, q, term):
    """the float64 value of f(q) for a rational constant q is recognised as the real f(q) (DESIGN §1.1)"""
    try:
        with np.errstate(all="ignore"):
            v = float(getattr(np, name)(np.float64(float(q))))
        K = _known()
        if v == v and abs(v) != _F("inf") and v != 0.0:
            K.setdefault(v, term)
            if v != 0:
                K.setdefault(1.0 / v, tm.div(tm.const(1), term))
    except Exception:
        pass


def _dom(c, fact=False):
    e = _EngineRef.engine
    if e is not None:
        e.domain(c, fact=fact)


def _div(a, b):
    if b.op == "c":
        if b.val == 0:
            raise NonReal("division by the constant zero in the real lane")
    else:
        _dom(tm.ne(b, tm.const(0)))
    return tm.div(a, b)


def _exp(a):
    if a.op == "c" and a.val == 0:
        return tm.const(1)
    r = tm.uf("exp", a)
    if a.op == "c":
        _register_const("exp", a.val, r)
    _dom(tm.lt(tm.const(0), r), fact=True)  # a true fact about exp, helps path feasibility
    return r


def _obviously_pos(t):
    if t.op == "c":
        return t.val > 0
    if t.op == "uf":
        return t.val == "exp"
    if t.op in ("+", "*", "/"):
        return _obviously_pos(t.args[0]) and _obviously_pos(t.args[1])
    return False


def _log(a):
    # log laws on manifestly positive arguments (sound real identities): keeps log-softmax style terms decidable
    if a.op == "uf" and a.val == "exp":
        return a.args[0]
    if a.op in ("/", "*") and _obviously_pos(a.args[0]) and _obviously_pos(a.args[1]):
        l0, l1 = _log(a.args[0]), _log(a.args[1])
        return tm.sub(l0, l1) if a.op == "/" else tm.add(l0, l1)
    if a.op == "c":
        if a.val <= 0:
            raise NonReal("log of non-positive constant")
        if a.val == 1:
            return tm.const(0)
        r = tm.uf("log", a)
        _register_const("log", a.val, r)
        return r
    else:
        _dom(tm.lt(tm.const(0), a))
    return tm.uf("log", a)


def _sqrt(a):
    if a.op == "c":
        if a.val < 0:
            raise NonReal("sqrt of negative constant")
        n, d = a.val.numerator, a.val.denominator
        rn, rd = math.isqrt(n), math.isqrt(d)
        if rn * rn == n and rd * rd == d:
            return tm.const(fractions.Fraction(rn, rd))
    else:
        _dom(tm.le(tm.const(0), a))
    r = tm.uf("sqrt", a)
    _dom(tm.le(tm.const(0), r), fact=True)
    return r


def _cbrt(a):
    return tm.uf("cbrt", a)


def _ipow(a, n):
    if n == 0:
        return tm.const(1)
    r = a
    for _ in range(abs(n) - 1):
        r = tm.mul(r, a)
    if n < 0:
        r = _div(tm.const(1), r)
    return r


def _pow(a, b):
    if b.op == "c":
        q = b.val
        if q.denominator == 1 and abs(q.numerator) <= 8:
            return _ipow(a, int(q))
        if q.denominator == 2 and abs(q.numerator) <= 9:
            # x**(k/2) = sqrt(x)**k
            return _ipow(_sqrt(a), int(q.numerator))
        if q.denominator == 3 and abs(q.numerator) <= 6 and not (a.op == "c"):
            return _ipow(_cbrt(a), int(q.numerator))
    if a.op == "c" and a.val > 0:
        if a.val == 1:
            return tm.const(1)
        return _exp(tm.mul(b, _log(a)))
    # general x**y : binary UF on the domain x > 0
    _dom(tm.lt(tm.const(0), a))
    return tm.uf("POW", a, b)


# --------------------------------------------------------------------------- SymInt
class SymInt:
    """Unbounded symbolic integer (z3 Int)."""

    __slots__ = ("t",)

    def __init__(self, t):
        self.t = t if isinstance(t, z3.ExprRef) else z3.IntVal(int(t))

    @staticmethod
    def lift(o):
        if isinstance(o, SymInt):
            return o.t
        if isinstance(o, (bool, np.bool_)):
            return z3.IntVal(int(o))
        if isinstance(o, (int, np.integer)):
            return z3.IntVal(int(o))
        return None

    def _b(s, o, f, rev=False):
        ot = SymInt.lift(o)
        if ot is None:
            return NotImplemented
        return SymInt(f(ot, s.t) if rev else f(s.t, ot))

    def __add__(s, o):
        return s._b(o, lambda a, b: a + b)

    def __radd__(s, o):
        return s._b(o, lambda a, b: a + b, True)

    def __sub__(s, o):
        return s._b(o, lambda a, b: a - b)

    def __rsub__(s, o):
        return s._b(o, lambda a, b: a - b, True)

    def __mul__(s, o):
        return s._b(o, lambda a, b: a * b)

    def __rmul__(s, o):
        return s._b(o, lambda a, b: a * b, True)

    @staticmethod
    def _fdiv(a, b):
        # Python floor division for any sign of b (z3 '/' on Int is Euclidean-ish: floor for b>0)
        return z3.If(b > 0, a / b, (-a) / (-b))

    @staticmethod
    def _fmod(a, b):
        return a - b * SymInt._fdiv(a, b)

    def __floordiv__(s, o):
        return s._b(o, SymInt._fdiv)

    def __rfloordiv__(s, o):
        return s._b(o, SymInt._fdiv, True)

    def __mod__(s, o):
        return s._b(o, SymInt._fmod)

    def __rmod__(s, o):
        return s._b(o, SymInt._fmod, True)

    def __divmod__(s, o):
        ot = SymInt.lift(o)
        if ot is None:
            return NotImplemented
        return (SymInt(SymInt._fdiv(s.t, ot)), SymInt(SymInt._fmod(s.t, ot)))

    def __rdivmod__(s, o):
        ot = SymInt.lift(o)
        if ot is None:
            return NotImplemented
        return (SymInt(SymInt._fdiv(ot, s.t)), SymInt(SymInt._fmod(ot, s.t)))

    def __truediv__(s, o):
        ot = SymInt.lift(o)
        if ot is None:
            return NotImplemented
        return SymQ(s.t, ot)

    def __neg__(s):
        return SymInt(-s.t)

    def __pos__(s):
        return s

    def __abs__(s):
        return SymInt(z3.If(s.t >= 0, s.t, -s.t))

    def _c(s, o, f):
        ot = SymInt.lift(o)
        if ot is None:
            return NotImplemented
        return SymBool(f(s.t, ot))

    def __lt__(s, o):
        return s._c(o, lambda a, b: a < b)

    def __le__(s, o):
        return s._c(o, lambda a, b: a <= b)

    def __gt__(s, o):
        return s._c(o, lambda a, b: a > b)

    def __ge__(s, o):
        return s._c(o, lambda a, b: a >= b)

    def __eq__(s, o):
        return s._c(o, lambda a, b: a == b)

    def __ne__(s, o):
        return s._c(o, lambda a, b: a != b)

    __hash__ = None

    def __bool__(s):
        return bool(s != 0)

    def __index__(s):
        v = z3.simplify(s.t)
        if z3.is_int_value(v):
            return v.as_long()
        return _EngineRef.engine.concretize_int(s.t)

    __int__ = __index__

    def __repr__(s):
        return "SymInt(%s)" % s.t


numbers.Integral.register(SymInt)


class SymQ:
    """quotient of two symbolic ints produced by ``/`` (only what the conv/pool guards need)"""

    def __init__(self, num, den):
        self.num = num
        self.den = den

    def __add__(self, o):
        return SymQ(self.num + SymInt.lift(o) * self.den, self.den)

    __radd__ = __add__

    def __sub__(self, o):
        return SymQ(self.num - SymInt.lift(o) * self.den, self.den)

    def is_integer(self):
        return SymBool(self.num % self.den == 0)

    def _r(self):
        return z3.ToReal(self.num) / z3.ToReal(self.den)

    def __gt__(self, o):
        return SymBool(self._r() > z3.ToReal(SymInt.lift(o)))

    def __ge__(self, o):
        return SymBool(self._r() >= z3.ToReal(SymInt.lift(o)))

    def __lt__(self, o):
        return SymBool(self._r() < z3.ToReal(SymInt.lift(o)))

    def __le__(self, o):
        return SymBool(self._r() <= z3.ToReal(SymInt.lift(o)))

    def __int__(self):
        return SymInt(SymInt._fdiv(self.num, self.den))


# --------------------------------------------------------------------------- array helpers
def symarr(name, shape):
    a = np.empty(shape, dtype=object)
    for idx in np.ndindex(*shape):
        a[idx] = Sym(tm.var(name + "".join("_%d" % i for i in idx)))
    return a


def terms_of(arr):
    """flat list of terms of an array-like of Sym/number elements"""
    a = np.asarray(arr, dtype=object)
    out = []
    for x in a.reshape(-1) if a.ndim else [a[()]]:
        t = Sym.lift(x)
        if t is None:
            raise TypeError("element %r is not liftable" % (x,))
        out.append(t)
    return out
