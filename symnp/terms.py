"""Hash-consed term DAG for the real lane (and boolean conditions over it).

Terms are built by the symbolic scalars while the *real* MyGrad / NumPy code runs.  They are kept in
the order the implementation produced them (no algebraic simplification beyond neutral-element
folding), converted to z3 only when a query is posed, differentiated by ``symnp.diff`` and
evaluated numerically (mpmath) by ``symnp.numeric`` for the replay gate.
"""
from fractions import Fraction
import sys

sys.setrecursionlimit(20000)

_TABLE = {}
_COUNTER = [0]


class T:
    __slots__ = ("op", "args", "val", "sort", "uid")

    def __repr__(self):
        return show(self)


def reset():
    """Forget all interned terms (call between independent cases)."""
    _TABLE.clear()
    _Z3MEMO.clear()


def _mk(op, args=(), val=None, sort="R"):
    key = (op, val, tuple(a.uid for a in args))
    t = _TABLE.get(key)
    if t is None:
        t = T()
        t.op = op
        t.args = args
        t.val = val
        t.sort = sort
        _COUNTER[0] += 1
        t.uid = _COUNTER[0]
        _TABLE[key] = t
    return t


# ------------------------------------------------------------------ real terms
def const(q):
    if not isinstance(q, Fraction):
        q = Fraction(q)
    return _mk("c", (), q)


ZERO = None
ONE = None


def _consts():
    global ZERO, ONE
    ZERO = const(0)
    ONE = const(1)


def var(name):
    return _mk("v", (), name)


def is_const(t):
    return t.op == "c"


def is_zero(t):
    return t.op == "c" and t.val == 0


def is_one(t):
    return t.op == "c" and t.val == 1


def add(a, b):
    if a.op == "c" and b.op == "c":
        return const(a.val + b.val)
    if is_zero(a):
        return b
    if is_zero(b):
        return a
    return _mk("+", (a, b))


def sub(a, b):
    if a.op == "c" and b.op == "c":
        return const(a.val - b.val)
    if is_zero(b):
        return a
    if is_zero(a):
        return neg(b)
    return _mk("-", (a, b))


def neg(a):
    if a.op == "c":
        return const(-a.val)
    if a.op == "neg":
        return a.args[0]
    return _mk("neg", (a,))


def mul(a, b):
    if a.op == "c" and b.op == "c":
        return const(a.val * b.val)
    if is_zero(a) or is_zero(b):
        return const(0)
    if is_one(a):
        return b
    if is_one(b):
        return a
    return _mk("*", (a, b))


def div(a, b):
    if b.op == "c" and b.val != 0:
        if a.op == "c":
            return const(a.val / b.val)
        if b.val == 1:
            return a
    return _mk("/", (a, b))


def ite(c, a, b):
    if c.op == "true":
        return a
    if c.op == "false":
        return b
    if a is b:
        return a
    return _mk("ite", (c, a, b))


def uf(name, *args):
    return _mk("uf", tuple(args), name)


# ------------------------------------------------------------------ conditions
def true():
    return _mk("true", (), None, "B")


def false():
    return _mk("false", (), None, "B")


def bvar(name):
    return _mk("bv", (), name, "B")


def _cmp(op, a, b):
    if a.op == "c" and b.op == "c":
        r = {"<": a.val < b.val, "<=": a.val <= b.val, "==": a.val == b.val}[op]
        return true() if r else false()
    if a is b:
        return false() if op == "<" else true()
    return _mk(op, (a, b), None, "B")


def lt(a, b):
    return _cmp("<", a, b)


def le(a, b):
    return _cmp("<=", a, b)


def eq(a, b):
    return _cmp("==", a, b)


def not_(c):
    if c.op == "true":
        return false()
    if c.op == "false":
        return true()
    if c.op == "not":
        return c.args[0]
    return _mk("not", (c,), None, "B")


def ne(a, b):
    return not_(eq(a, b))


def and_(*cs):
    out = []
    for c in cs:
        if c.op == "false":
            return false()
        if c.op == "true":
            continue
        out.append(c)
    if not out:
        return true()
    if len(out) == 1:
        return out[0]
    return _mk("and", tuple(out), None, "B")


def or_(*cs):
    out = []
    for c in cs:
        if c.op == "true":
            return true()
        if c.op == "false":
            continue
        out.append(c)
    if not out:
        return false()
    if len(out) == 1:
        return out[0]
    return _mk("or", tuple(out), None, "B")


# ------------------------------------------------------------------ traversal helpers
def postorder(roots):
    seen = set()
    order = []
    stack = [(r, False) for r in roots]
    while stack:
        t, done = stack.pop()
        if done:
            order.append(t)
            continue
        if t.uid in seen:
            continue
        seen.add(t.uid)
        stack.append((t, True))
        for a in t.args:
            if a.uid not in seen:
                stack.append((a, False))
    return order


def variables(roots):
    return sorted({t.val for t in postorder(roots) if t.op == "v"})


def bool_variables(roots):
    return sorted({t.val for t in postorder(roots) if t.op == "bv"})


def substitute(roots, mapping):
    """mapping: uid -> replacement T.  Returns list of rebuilt roots (re-folded)."""
    memo = dict(mapping)
    for t in postorder(roots):
        if t.uid in memo:
            continue
        if not t.args:
            memo[t.uid] = t
            continue
        na = tuple(memo[a.uid] for a in t.args)
        if all(x is y for x, y in zip(na, t.args)):
            memo[t.uid] = t
        else:
            memo[t.uid] = rebuild(t, na)
    return [memo[r.uid] for r in roots]


_BUILD = {}


def rebuild(t, na):
    op = t.op
    if op == "uf":
        return uf(t.val, *na)
    return _BUILD[op](*na)


def size(roots):
    return len(postorder(roots))


def show(t, depth=6):
    if t.op == "c":
        return str(t.val)
    if t.op in ("v", "bv"):
        return str(t.val)
    if depth == 0:
        return "…"
    if t.op == "uf":
        return "%s(%s)" % (t.val, ", ".join(show(a, depth - 1) for a in t.args))
    if t.op in ("true", "false"):
        return t.op
    if t.op in ("neg", "not"):
        return "%s(%s)" % ("-" if t.op == "neg" else "!", show(t.args[0], depth - 1))
    if t.op in ("ite", "and", "or"):
        return "%s(%s)" % (t.op, ", ".join(show(a, depth - 1) for a in t.args))
    return "(%s %s %s)" % (show(t.args[0], depth - 1), t.op, show(t.args[1], depth - 1))


# ------------------------------------------------------------------ conversion to z3
_Z3MEMO = {}


def to_z3(t):
    import z3

    if isinstance(t, z3.ExprRef):
        return t
    memo = _Z3MEMO
    r = memo.get(t.uid)
    if r is not None:
        return r
    for n in postorder([t]):
        if n.uid in memo:
            continue
        a = [memo[x.uid] for x in n.args]
        op = n.op
        if op == "c":
            z = z3.RealVal(str(n.val))
        elif op == "v":
            z = z3.Real(n.val)
        elif op == "bv":
            z = z3.Bool(n.val)
        elif op == "+":
            z = a[0] + a[1]
        elif op == "-":
            z = a[0] - a[1]
        elif op == "*":
            z = a[0] * a[1]
        elif op == "/":
            z = a[0] / a[1]
        elif op == "neg":
            z = -a[0]
        elif op == "ite":
            z = z3.If(a[0], a[1], a[2])
        elif op == "uf":
            f = z3.Function(n.val, *([z3.RealSort()] * (len(a) + 1)))
            z = f(*a)
        elif op == "<":
            z = a[0] < a[1]
        elif op == "<=":
            z = a[0] <= a[1]
        elif op == "==":
            z = a[0] == a[1]
        elif op == "not":
            z = z3.Not(a[0])
        elif op == "and":
            z = z3.And(*a)
        elif op == "or":
            z = z3.Or(*a)
        elif op == "true":
            z = z3.BoolVal(True)
        elif op == "false":
            z = z3.BoolVal(False)
        else:
            raise NotImplementedError(op)
        memo[n.uid] = z
    return memo[t.uid]


_BUILD.update(
    {
        "+": add,
        "-": sub,
        "*": mul,
        "/": div,
        "neg": neg,
        "ite": ite,
        "<": lt,
        "<=": le,
        "==": eq,
        "not": not_,
        "and": and_,
        "or": or_,
    }
)
