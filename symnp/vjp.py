"""Shared oracle: gradients produced by the real backward pass vs. the reference differentiator."""
import numpy as np

from . import terms as tm
from . import diff, query
from .scalars import Sym, terms_of


def boundary_vars(path):
    names = set()
    for b in path.boundary:
        names.update(tm.variables([b]))
    return names


def check_grads(path, L, leaves, timeout_ms=10000, per_element=False, extra_conds=(), skip_vars=(), subst=None,
                none_means_zero=True):
    """
    path    : engine Path (pc, dom)
    L       : scalar term  Σ g·out  recorded from the implementation's own forward pass
    leaves  : list of (label, var_array(object ndarray of Sym vars), grad_array or None)
    returns dict(verdict=..., detail=[...], model=...)
    """
    res = {"unsat": 0, "sat": 0, "unknown": 0, "cex": None, "skipped": 0}
    var_terms = []
    slots = []
    for label, varr, garr in leaves:
        vt = terms_of(varr)
        if garr is None:
            gt = [None] * len(vt)
        else:
            ga = np.asarray(garr, dtype=object)
            if ga.shape != np.asarray(varr, dtype=object).shape:
                res["cex"] = {"kind": "shape", "leaf": label, "got": list(ga.shape)}
                res["sat"] += 1
                return res
            gt = terms_of(ga)
        for k, (v, g) in enumerate(zip(vt, gt)):
            if v.val in skip_vars:
                res["skipped"] += 1
                continue
            var_terms.append(v)
            slots.append((label, k, g))
    refs, ddom = diff.grad(L, var_terms)
    if subst:
        refs = tm.substitute(refs, subst)
        ddom = tm.substitute(ddom, subst)
    conds = list(path.pc) + list(path.dom) + ddom + list(extra_conds)
    prob = query.Problem(conds)
    nice = [v for v in tm.variables([L])]
    pairs = []
    for (label, k, g), ref in zip(slots, refs):
        if g is None:
            # a missing gradient is correct only if the reference is identically zero
            g = tm.const(0)
        pairs.append((label, k, g, ref))
    if per_element:
        groups = [[p] for p in pairs]
    else:
        by = {}
        for p in pairs:
            by.setdefault(p[0], []).append(p)
        groups = list(by.values())
    try:
        prob.base_conditions([x for (_, _, g, ref) in pairs for x in (g, ref)], raw=True)
    except ZeroDivisionError:
        # a denominator is identically zero: the domain of the program is empty, nothing to claim
        res["reachable"] = "unsat"
        res["witness"] = None
        res["empty_domain"] = True
        return res
    for grp in groups:
        r = prob.differ_any([(g, ref) for (_, _, g, ref) in grp], timeout_ms, nice_vars=nice)
        res[r.verdict] += 1
        if r.verdict == "sat" and res["cex"] is None:
            # locate the element
            for label, k, g, ref in grp:
                if g is ref:
                    continue
                r1 = prob.differ(g, ref, timeout_ms, nice_vars=nice)
                if r1.verdict == "sat":
                    res["cex"] = {
                        "kind": "value",
                        "leaf": label,
                        "index": k,
                        "model": r1.model,
                        "got": g,
                        "ref": ref,
                    }
                    break
            if res["cex"] is None:
                res["cex"] = {"kind": "value", "leaf": grp[0][0], "index": None, "model": r.model,
                              "got": grp[0][2], "ref": grp[0][3]}
    # reachability / vacuity twin (trivial when the run made no decision and met no definedness condition)
    if not conds:
        res["reachable"] = "sat"
        res["witness"] = {n: 1 for n in nice[:8]}
        return res
    rr = prob.reachable(timeout_ms, nice_vars=nice)
    res["reachable"] = rr.verdict
    res["witness"] = rr.model
    return res
