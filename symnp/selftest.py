"""Self-validation of the trusted base, run as a preflight of the gradient checks (DESIGN §1.5, §1.7):

(i)   the differentiator on closed forms whose derivatives are entered by hand (decided by the same query pipeline);
(ii)  every row of the UF derivative table against a central difference of the true function (mpmath) at three points;
(iii) vacuity guard: a deliberately false claim must come back `sat` with a model that survives the numeric gate;
(iv)  z3 and cvc5 agree on a fixed sample of queries (disagreement = harness error).
Raises RuntimeError on any failure.
"""
from fractions import Fraction

import mpmath as mp

from . import diff, numeric, query, terms as tm

c = tm.const


def _v(n):
    return tm.var(n)


def run():
    tm.reset()
    x, y = _v("x"), _v("y")
    E = lambda a: tm.uf("exp", a)
    L = lambda a: tm.uf("log", a)
    S = lambda a: tm.uf("sin", a)
    C = lambda a: tm.uf("cos", a)
    Q = lambda a: tm.uf("sqrt", a)
    forms = [
        (tm.mul(x, tm.mul(x, x)), x, tm.mul(c(3), tm.mul(x, x)), []),
        (tm.div(x, y), y, tm.neg(tm.div(x, tm.mul(y, y))), [tm.ne(y, c(0))]),
        (E(tm.mul(x, y)), x, tm.mul(y, E(tm.mul(x, y))), []),
        (L(tm.add(c(1), tm.mul(x, x))), x, tm.div(tm.mul(c(2), x), tm.add(c(1), tm.mul(x, x))), []),
        (tm.mul(S(x), C(x)), x, tm.sub(tm.mul(C(x), C(x)), tm.mul(S(x), S(x))), []),
        (Q(x), x, tm.div(c(1), tm.mul(c(2), Q(x))), [tm.lt(c(0), x)]),
        (tm.uf("arctan", x), x, tm.div(c(1), tm.add(c(1), tm.mul(x, x))), []),
        (tm.uf("POW", x, y), y, tm.mul(tm.uf("POW", x, y), L(x)), [tm.lt(c(0), x)]),
        (tm.ite(tm.lt(c(0), x), tm.mul(x, x), tm.neg(x)), x, tm.ite(tm.lt(c(0), x), tm.mul(c(2), x), c(-1)), [tm.ne(x, c(0))]),
        (tm.div(E(x), tm.add(E(x), E(y))), x, tm.div(tm.mul(E(x), E(y)), tm.mul(tm.add(E(x), E(y)), tm.add(E(x), E(y)))), []),
    ]
    for f, v, want, conds in forms:
        (got,), dd = diff.grad(f, [v])
        r = query.Problem(conds + dd).differ(got, want, 10000)
        if r.verdict != "unsat":
            raise RuntimeError("differentiator self-test failed on %s (verdict %s)" % (tm.show(f), r.verdict))
    # (ii) table rows vs central differences of the true functions
    pts = {"arccosh": [1.5, 2.0, 3.25], "arcsin": [-0.5, 0.1, 0.7], "arccos": [-0.5, 0.1, 0.7], "arctanh": [-0.5, 0.1, 0.7], "log": [0.3, 1.7, 4.0],
           "sqrt": [0.3, 1.7, 4.0]}
    mp.mp.dps = 40
    for name, row in diff.TABLE.items():
        nargs = 2 if name in ("POW", "arctan2") else 1
        for k in range(3):
            vals = [pts.get(name, [-0.8, 0.45, 1.3])[k]] if nargs == 1 else [[0.7, 1.6, 2.5][k], [-0.4, 0.9, 1.7][k]]
            args = [_v("a%d" % i) for i in range(nargs)]
            env = {"a%d" % i: Fraction(vals[i]).limit_denominator(1000) for i in range(nargs)}
            app = tm.uf(name, *args)
            rows = row(tuple(args), app)
            got = numeric.evaluate(list(rows), env)
            for i in range(nargs):
                h = mp.mpf(10) ** -15
                hi = dict(env)
                lo = dict(env)
                hi["a%d" % i] = numeric.mpf(env["a%d" % i]) + h
                lo["a%d" % i] = numeric.mpf(env["a%d" % i]) - h
                fh, fl = numeric.evaluate([app], hi)[0], numeric.evaluate([app], lo)[0]
                num = (fh - fl) / (2 * h)
                if got[i] is None or abs(got[i] - num) > mp.mpf(10) ** -20 * max(1, abs(num)):
                    raise RuntimeError("derivative table row %s[%d] disagrees with the true function at %s" % (name, i, vals))
    # (iii) vacuity guard: a planted false claim must be refuted with a model that survives the numeric gate
    bad = query.Problem([]).differ(tm.mul(c(2), x), tm.add(x, tm.mul(x, c(Fraction(1000001, 1000000)))), 10000)
    if bad.verdict != "sat" or not bad.model:
        raise RuntimeError("vacuity guard: planted false claim was not refuted (%s)" % bad.verdict)
    G, F = numeric.evaluate([tm.mul(c(2), x), tm.add(x, tm.mul(x, c(Fraction(1000001, 1000000))))], {"x": bad.model.get("x", 1)})
    if G == F:
        raise RuntimeError("vacuity guard: model does not separate the two terms")
    # (iv) two solvers agree on a fixed sample
    import z3

    a, b = z3.Reals("a b")
    sample = [([a * a + b * b < 1, a * b > 1], "unsat"), ([a * a + b * b < 3, a * b > 1], "sat"), ([a > 0, b > 0, (a + b) * (a + b) < 4 * a * b], "unsat"),
              ([a * a * a == 2, a > 1, a < 2], "sat")]
    definite = 0
    for conds, want in sample:
        s = z3.Solver()
        s.add(*conds)
        vz = str(s.check())
        vc = query._cvc5_check(s, 8000)
        definite += vc in ("sat", "unsat")
        if vz != want or (vc in ("sat", "unsat") and vc != vz):
            raise RuntimeError("solver disagreement on the fixed sample: z3 %s, cvc5 %s, expected %s" % (vz, vc, want))
    if definite == 0:
        raise RuntimeError("cvc5 gave no definite answer on the fixed sample (second solver unavailable)")
    tm.reset()
    return {"closed_forms": len(forms), "table_rows": len(diff.TABLE), "solver_sample": len(sample)}
