"""Namespace substitutions that let the real MyGrad source run on object arrays of Sym (DESIGN §1.2).

Nothing in /repo is modified; after importing ``mygrad`` from the current working tree, the module
global ``np`` of every ``mygrad.*`` module is replaced by ``NpProxy`` which forwards everything to NumPy
except the handful of float-only helpers listed below.  Every substitution that fires is recorded in
``USED`` and reported in the evidence file, because each is part of the claim.
"""
import sys
import types

import numpy as np

from . import terms as tm
from .scalars import Sym, SymBool, SymInt

USED = {}


def _used(name):
    USED[name] = USED.get(name, 0) + 1


def _isfloat(dt):
    if dt is None:
        return True
    try:
        return np.issubdtype(np.dtype(dt), np.floating)
    except TypeError:
        return False


def is_obj(x):
    return isinstance(x, np.ndarray) and x.dtype == object or isinstance(x, Sym)


def _elementwise(f, *arrs):
    arrs = np.broadcast_arrays(*[np.asarray(a, dtype=object) for a in arrs])
    out = np.empty(arrs[0].shape, dtype=object)
    for idx in np.ndindex(*out.shape):
        out[idx] = f(*[a[idx] for a in arrs])
    return out


class NpProxy(types.ModuleType):
    floating = (np.floating, np.object_)

    def __init__(self):
        super().__init__("numpy_proxy_for_symnp")

    def __getattr__(self, n):
        return getattr(np, n)

    # -- allocation: float64 |-> symbolic real (filled with constant Sym, so reductions stay Sym)
    def zeros(self, shape, dtype=None, *a, **k):
        if _isfloat(dtype):
            _used("np.zeros(float)->object")
            return _filled(np.zeros(shape, object, *a, **k), 0)
        return np.zeros(shape, dtype, *a, **k)

    def ones(self, shape, dtype=None, *a, **k):
        if _isfloat(dtype):
            _used("np.ones(float)->object")
            return _filled(np.ones(shape, object, *a, **k), 1)
        return np.ones(shape, dtype, *a, **k)

    def empty(self, shape, dtype=None, *a, **k):
        if _isfloat(dtype):
            _used("np.empty(float)->object zeros")
            return _filled(np.zeros(shape, object, *a, **k), 0)
        return np.empty(shape, dtype, *a, **k)

    def full(self, shape, fill_value, dtype=None, *a, **k):
        if (dtype is None and isinstance(fill_value, (float, Sym))) or (dtype is not None and _isfloat(dtype)):
            _used("np.full(float)->object")
            return _filled(np.empty(shape, object, *a, **k), fill_value)
        return np.full(shape, fill_value, dtype, *a, **k)

    def zeros_like(self, a, dtype=None, *args, **k):
        r = np.zeros_like(a, dtype, *args, **k)
        return _filled(r, 0) if r.dtype == object else r

    def ones_like(self, a, dtype=None, *args, **k):
        r = np.ones_like(a, dtype, *args, **k)
        return _filled(r, 1) if r.dtype == object else r

    def full_like(self, a, fill_value, dtype=None, *args, **k):
        r = np.full_like(a, fill_value, dtype, *args, **k)
        return _filled(r, fill_value) if r.dtype == object else r

    def sinc(self, x):
        xa = np.asarray(x)
        if xa.dtype == object:
            _used("np.sinc modelled: 1 at x==0 (tie path), sin(pi x)/(pi x) elsewhere")

            def f(e):
                if not isinstance(e, Sym):
                    e = Sym(e)
                if e == 0:
                    return Sym(1)
                y = e * np.pi
                return y.sin() / y

            r = _elementwise(f, xa)
            return r if r.ndim else r[()]
        return np.sinc(x)

    # -- reals have no NaN / inf
    def isnan(self, x, *a, **k):
        xa = np.asarray(x)
        if xa.dtype == object:
            _used("np.isnan->False")
            return np.zeros(xa.shape, dtype=bool) if xa.ndim else np.False_
        return np.isnan(x, *a, **k)

    def isfinite(self, x, *a, **k):
        xa = np.asarray(x)
        if xa.dtype == object:
            _used("np.isfinite->True")
            return np.ones(xa.shape, dtype=bool) if xa.ndim else np.True_
        return np.isfinite(x, *a, **k)

    def nan_to_num(self, x, copy=True, **k):
        xa = np.asarray(x)
        if xa.dtype == object:
            _used("np.nan_to_num->identity")
            return xa.copy() if copy else xa
        return np.nan_to_num(x, copy=copy, **k)

    def isclose(self, a, b, rtol=1e-05, atol=1e-08, equal_nan=False):
        if is_obj(a) or is_obj(b) or isinstance(np.asarray(a).flat[0] if np.size(a) else 0, Sym):
            _used("np.isclose->exact/real comparison")
            if isinstance(b, (int, float)) and atol < 1e-12 and (b == 0 or rtol < 1e-12):
                # tolerance below anything but exact equality in the real semantics
                r = _elementwise(lambda x: bool(x == b), a)
            else:
                r = _elementwise(
                    lambda x, y: bool(abs(x - y) <= atol + rtol * abs(y)), a, b
                )
            r = r.astype(bool)
            return r if r.ndim else r[()]
        return np.isclose(a, b, rtol=rtol, atol=atol, equal_nan=equal_nan)

    # -- object dtype needs an `initial` when `where=` is given
    def sum(self, a, *args, **k):
        obj = is_obj(np.asarray(a))
        if k.get("where", True) is not True and obj and "initial" not in k:
            k["initial"] = 0
            _used("np.sum(where=) initial=0")
        r = np.sum(a, *args, **k)
        return _symscalar(r) if obj else r

    def prod(self, a, *args, **k):
        obj = is_obj(np.asarray(a))
        if k.get("where", True) is not True and obj and "initial" not in k:
            k["initial"] = 1
            _used("np.prod(where=) initial=1")
        r = np.prod(a, *args, **k)
        return _symscalar(r) if obj else r

    def sign(self, x, *a, **k):
        if is_obj(np.asarray(x)) and not a and not k:
            _used("np.sign elementwise(fork)")
            def sg(e):
                if not isinstance(e, Sym):
                    return np.sign(e)
                if e > 0:
                    return 1
                if e < 0:
                    return -1
                return 0
            r = _elementwise(sg, x)
            return r if r.ndim else r[()]
        return np.sign(x, *a, **k)

    def piecewise(self, x, condlist, funclist, *args, **kw):
        xa = np.asarray(x)
        if xa.dtype == object:
            _used("np.piecewise object-aware")
            x = xa
            if not isinstance(condlist, (list, tuple)) or (
                len(condlist) and not isinstance(condlist[0], (list, np.ndarray))
                and x.ndim != 0
            ):
                condlist = [condlist]
            condlist = [np.asarray(cnd, dtype=bool) for cnd in condlist]
            n2 = len(funclist)
            n = len(condlist)
            if n == n2 - 1:
                condelse = ~np.any(condlist, axis=0, keepdims=True)
                condlist = list(condlist) + [condelse.reshape(x.shape)]
            y = np.zeros(x.shape, dtype=object)
            for cnd, func in zip(condlist, funclist):
                cnd = np.broadcast_to(cnd, x.shape)
                if callable(func):
                    vals = x[cnd]
                    if vals.size > 0:
                        y[cnd] = func(vals, *args, **kw)
                else:
                    y[cnd] = func
            return y
        return np.piecewise(x, condlist, funclist, *args, **kw)

    def select(self, condlist, choicelist, default=0):
        if any(is_obj(np.asarray(ch)) for ch in choicelist):
            _used("np.select object-aware")
            conds = [np.asarray(cnd, dtype=bool) for cnd in condlist]
            chs = [np.asarray(ch, dtype=object) for ch in choicelist]
            shape = np.broadcast_shapes(*[x.shape for x in conds + chs])
            out = np.full(shape, default, dtype=object)
            for cnd, ch in list(zip(conds, chs))[::-1]:
                cnd = np.broadcast_to(cnd, shape)
                ch = np.broadcast_to(ch, shape)
                out[cnd] = ch[cnd]
            return out
        return np.select(condlist, choicelist, default)

    def clip(self, a, a_min=None, a_max=None, out=None, **k):
        aa = np.asarray(a)
        if (aa.dtype == object or is_obj(a_min) or is_obj(a_max)) and out is None and not k:
            _used("np.clip via minimum/maximum")
            r = aa
            if a_min is not None:
                r = np.maximum(r, a_min)
            if a_max is not None:
                r = np.minimum(r, a_max)
            return r
        return np.clip(a, a_min, a_max, out=out, **k)

    def where(self, *a, **k):
        r = np.where(*a, **k)
        return symify(r) if isinstance(r, np.ndarray) and r.dtype == object else r

    def concatenate(self, *a, **k):
        r = np.concatenate(*a, **k)
        return symify(r) if r.dtype == object else r

    def stack(self, *a, **k):
        r = np.stack(*a, **k)
        return symify(r) if r.dtype == object else r

    def pad(self, *a, **k):
        r = np.pad(*a, **k)
        return symify(r) if r.dtype == object else r

    def array(self, obj, dtype=None, *a, **k):
        if dtype is not None and _isfloat(dtype) and _has_sym(obj):
            _used("np.array(sym, float)->object")
            dtype = object
        return np.array(obj, dtype, *a, **k)

    def asarray(self, obj, dtype=None, *a, **k):
        if dtype is not None and _isfloat(dtype) and _has_sym(obj):
            _used("np.asarray(sym, float)->object")
            dtype = object
        r = np.asarray(obj, dtype, *a, **k)
        if r.dtype == object and r.size <= 64:
            # e.g. `grad[index] = 0` leaves bare ints in a gradient array; keep every element a (constant) Sym
            symify(r)
        return r

    def issubdtype(self, a, b):
        if isinstance(b, tuple):
            return any(self.issubdtype(a, x) for x in b if x is not np.object_) or np.dtype(a) == object
        try:
            if np.dtype(a) == object and b in (np.floating, np.inexact, np.number):
                _used("np.issubdtype(object, floating)->True")
                return True
        except TypeError:
            pass
        return np.issubdtype(a, b)


def symify(arr):
    """wrap bare Python/NumPy numbers inside an object array as constant Sym (value preserving)"""
    if arr.flags.writeable:
        flat = arr.reshape(-1) if arr.flags.c_contiguous else None
        it = np.ndindex(*arr.shape)
        for idx in it:
            e = arr[idx]
            if not isinstance(e, (Sym, SymBool, SymInt)) and isinstance(e, (int, float, np.generic)) and not isinstance(e, (bool, np.bool_)):
                arr[idx] = Sym(e)
    return arr


def _filled(arr, v):
    arr[...] = v if isinstance(v, Sym) else Sym(v)
    return arr


def _symscalar(r):
    """a reduction over an object array may hand back a bare Python number; keep it a (constant) Sym"""
    if isinstance(r, (int, float)) and not isinstance(r, (bool, np.generic)):
        _used("bare python number from object reduction -> Sym constant")
        return Sym(r)
    return r


def _has_sym(obj):
    if isinstance(obj, (Sym, SymInt, SymBool)):
        return True
    if isinstance(obj, np.ndarray):
        return obj.dtype == object
    if isinstance(obj, (list, tuple)):
        return any(_has_sym(o) for o in obj)
    return False


class _ObjArr(np.ndarray):
    """object-dtype array whose reductions never hand back a bare Python number (an empty or all-int object
    reduction yields `0`, which has no .shape/.ndim unlike the np.float64 a float array would give)"""

    def sum(self, *a, **k):
        r = np.ndarray.sum(self, *a, **k)
        if not isinstance(r, np.ndarray):
            out = np.empty((), dtype=object)
            out[()] = r if isinstance(r, Sym) else Sym(r)
            return out.view(_ObjArr)
        return r


def _wrap_reduce_broadcast(real):
    def reduce_broadcast(grad, var_shape):
        if isinstance(grad, np.ndarray) and grad.dtype == object and type(grad) is np.ndarray:
            _used("reduce_broadcast on object arrays: reductions keep array type")
            out = real(grad.view(_ObjArr), var_shape)
            if isinstance(out, _ObjArr):
                out = out.view(np.ndarray)
            return out
        return real(grad, var_shape)

    reduce_broadcast.__wrapped__ = real
    return reduce_broadcast


PROXY = NpProxy()
_installed = []


def install():
    """replace the global ``np`` of every imported mygrad module by the proxy"""
    import mygrad  # noqa
    import mygrad.nnet  # noqa
    import mygrad.nnet.layers  # noqa

    n = 0
    for name, mod in list(sys.modules.items()):
        if name == "mygrad" or name.startswith("mygrad."):
            if getattr(mod, "np", None) is np:
                mod.np = PROXY
                _installed.append(name)
                n += 1
            if getattr(mod, "numpy", None) is np and name != "mygrad._numpy_version":
                pass
    if n == 0:
        raise RuntimeError("np proxy could not be installed in any mygrad module")
    import mygrad._utils as mu

    if not hasattr(mu.reduce_broadcast, "__wrapped__"):
        real = mu.reduce_broadcast
        wrapped = _wrap_reduce_broadcast(real)
        for name, mod in list(sys.modules.items()):
            if (name == "mygrad" or name.startswith("mygrad.")) and getattr(mod, "reduce_broadcast", None) is real:
                mod.reduce_broadcast = wrapped
    _patch_kernels()
    return n


def _logaddexp(a, b, *args, **k):
    if is_obj(np.asarray(a)) or is_obj(np.asarray(b)):
        _used("kernel shim logaddexp")
        return _elementwise(lambda x, y: Sym(x).logaddexp(y), a, b)
    return np.logaddexp(a, b, *args, **k)


def _logaddexp2(a, b, *args, **k):
    if is_obj(np.asarray(a)) or is_obj(np.asarray(b)):
        _used("kernel shim logaddexp2")
        return _elementwise(lambda x, y: Sym(x).logaddexp2(y), a, b)
    return np.logaddexp2(a, b, *args, **k)


def _arctan2(a, b, *args, **k):
    _used("kernel shim arctan2")
    return _elementwise(lambda x, y: Sym(x).arctan2(y), a, b)


class _UfuncShim:
    """stand-in for a class-bound numpy ufunc without an object loop"""

    def __init__(self, real, fn):
        self._real = real
        self._fn = fn

    def __call__(self, *a, out=None, where=True, dtype=None, **k):
        arrs = [np.asarray(x) for x in a]
        if any(x.dtype == object for x in arrs) and self._fn is None:
            # real object loop of the real ufunc; only bare-number results are wrapped as constants
            kw = dict(k)
            if out is not None:
                kw["out"] = out
            if where is not True:
                kw["where"] = where
            if dtype is not None:
                kw["dtype"] = dtype
            r = self._real(*a, **kw)
            if isinstance(r, np.ndarray):
                return symify(r) if r.dtype == object and out is None else r
            return _symscalar(r)
        if any(x.dtype == object for x in arrs):
            r = self._fn(*a)
            if where is not True:
                w = np.broadcast_to(np.asarray(where, dtype=bool), r.shape)
                if out is None:
                    raise NotImplementedError("where= without out= on object arrays")
                out[w] = r[w]
                return out
            if out is not None:
                out[...] = r
                return out
            return r if r.ndim else r[()]
        kw = dict(k)
        if out is not None:
            kw["out"] = out
        if where is not True:
            kw["where"] = where
        if dtype is not None:
            kw["dtype"] = dtype
        return self._real(*a, **kw)

    def __getattr__(self, n):
        return getattr(self._real, n)


def _patch_kernels():
    from mygrad.math.exp_log import ops as el

    for cls, fn in (("Logaddexp", _logaddexp), ("Logaddexp2", _logaddexp2)):
        k = getattr(el, cls, None)
        if k is not None and isinstance(k.numpy_ufunc, np.ufunc):
            k.numpy_ufunc = _UfuncShim(k.numpy_ufunc, fn)
    from mygrad.math.trigonometric import ops as tr

    k = getattr(tr, "Arctan2", None)
    if k is not None and isinstance(k.numpy_ufunc, np.ufunc):
        k.numpy_ufunc = _UfuncShim(k.numpy_ufunc, _arctan2)
    # reductions over empty / all-constant object arrays hand back a bare Python number
    from mygrad.operation_base import Sequential

    def subs(c):
        for x in c.__subclasses__():
            yield x
            yield from subs(x)

    for cls in subs(Sequential):
        real = cls.__dict__.get("numpy_func")
        if real is None or getattr(real, "_symnp_wrapped", False):
            continue
        fn = real.__func__ if isinstance(real, staticmethod) else real

        def wrapped(a, *args, _fn=fn, **k):
            r = _fn(a, *args, **k)
            if isinstance(a, np.ndarray) and a.dtype == object:
                return _symscalar(r)
            return r

        w = staticmethod(wrapped)
        cls.numpy_func = w
        try:
            wrapped._symnp_wrapped = True
        except Exception:
            pass
    # selection-type ufuncs can hand back a bare Python operand (np.maximum(2.0, Sym) -> 2.0)
    from mygrad.math.misc import ops as mo

    for name in ("Maximum", "Minimum"):
        k = getattr(mo, name, None)
        if k is not None and isinstance(k.numpy_ufunc, np.ufunc):
            k.numpy_ufunc = _UfuncShim(k.numpy_ufunc, None)
