"""child process: read SMT-LIB2 from stdin, answer sat/unsat/unknown with cvc5 (QF_NRA)"""
import sys


def main():
    import cvc5

    tl = sys.argv[1] if len(sys.argv) > 1 else "10000"
    text = sys.stdin.read()
    tmgr = cvc5.TermManager() if hasattr(cvc5, "TermManager") else None
    slv = cvc5.Solver(tmgr) if tmgr is not None else cvc5.Solver()
    slv.setOption("tlimit-per", tl)
    slv.setOption("tlimit", str(int(tl) + 2000))
    slv.setLogic("QF_NRA")
    parser = cvc5.InputParser(slv)
    parser.setStringInput(cvc5.InputLanguage.SMT_LIB_2_6, text, "q")
    sm = parser.getSymbolManager()
    while True:
        cmd = parser.nextCommand()
        if cmd.isNull():
            break
        out = str(cmd.invoke(slv, sm)).strip()
        if out in ("sat", "unsat", "unknown"):
            print(out)
            return
    print("unknown")


if __name__ == "__main__":
    try:
        main()
    except Exception as e:  # noqa
        print("unknown")
