"""Loading the MyGrad under test (from /repo/src of the *current* working tree) and resetting its globals."""
import gc
import hashlib
import inspect
import os
import sys

REPO = os.environ.get("VERIF_REPO", "/repo")
SRC = os.path.join(REPO, "src")


def ensure_path():
    if SRC not in sys.path:
        sys.path.insert(0, SRC)


def load(symbolic=True):
    """import mygrad from the working tree; install the np proxy when symbolic"""
    ensure_path()
    import mygrad

    f = os.path.realpath(mygrad.__file__)
    if not f.startswith(os.path.realpath(SRC)):
        raise RuntimeError("mygrad imported from %s, expected %s" % (f, SRC))
    if symbolic:
        from . import proxy

        proxy.install()
        _unjit_gru()
    return mygrad


def _unjit_gru():
    try:
        import importlib

        gru = importlib.import_module("mygrad.nnet.layers.gru")
        gru = sys.modules["mygrad.nnet.layers.gru"]
    except Exception:
        return
    for name in ("_gru_layer", "_gru_dLds", "_gru_bptt", "dot", "sig", "d_sig", "d_tanh"):
        f = getattr(gru, name, None)
        if f is None:
            continue
        py = getattr(f, "py_func", None)
        if py is None and hasattr(f, "_dispatcher"):
            py = getattr(f._dispatcher, "py_func", None)
        if py is not None:
            setattr(gru, name, py)


def reset_state():
    """bring MyGrad's process-wide state back to its defaults (start of every path)"""
    import mygrad._utils.graph_tracking as gt
    import mygrad._utils.lock_management as lm

    gt.TRACK_GRAPH = True
    lm.MEM_GUARD = True
    for mgr in (gt.no_autodiff, lm.mem_guard_off, lm.mem_guard_on):
        mgr._depth = 0
        mgr._depth_tracker = {}
    if lm._array_counter or lm._array_tracker or lm._views_waiting_for_unlock:
        gc.collect()
    lm._array_counter.clear()
    lm._array_tracker.clear()
    lm._views_waiting_for_unlock.clear()


def source_hash(obj):
    try:
        src = inspect.getsource(obj)
    except Exception:
        return None
    return hashlib.sha256(src.encode()).hexdigest()[:12]


def describe(objs):
    out = []
    for o in objs:
        mod = getattr(o, "__module__", "?")
        qn = getattr(o, "__qualname__", getattr(o, "__name__", repr(o)))
        out.append({"function": "%s.%s" % (mod, qn), "sha": source_hash(o)})
    return out
