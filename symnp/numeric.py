"""Numeric evaluation of terms with the *true* functions (mpmath, 50 digits) – used by the replay gate."""
from fractions import Fraction

import mpmath as mp

from . import terms as tm

mp.mp.dps = 50

FUN = {
    "exp": mp.exp,
    "log": mp.log,
    "sin": mp.sin,
    "cos": mp.cos,
    "arcsin": mp.asin,
    "arccos": mp.acos,
    "arctan": mp.atan,
    "arcsinh": mp.asinh,
    "arccosh": mp.acosh,
    "arctanh": mp.atanh,
    "sqrt": mp.sqrt,
    "cbrt": lambda x: mp.sign(x) * mp.cbrt(abs(x)),
    "POW": mp.power,
    "arctan2": mp.atan2,
}


def mpf(q):
    if isinstance(q, Fraction):
        return mp.mpf(q.numerator) / mp.mpf(q.denominator)
    return mp.mpf(q)


def evaluate(roots, env, benv=None):
    """env: var name -> Fraction/float; returns list of mp values / bools (None if undefined)"""
    benv = benv or {}
    val = {}
    for n in tm.postorder(roots):
        op = n.op
        a = [val[x.uid] for x in n.args]
        try:
            if op == "c":
                r = mpf(n.val)
            elif op == "v":
                if n.val == "PI!":
                    r = mp.pi
                else:
                    r = mpf(env[n.val])
            elif op == "bv":
                r = bool(benv.get(n.val, False))
            elif any(x is None for x in a) and op != "ite":
                r = None
            elif op == "+":
                r = a[0] + a[1]
            elif op == "-":
                r = a[0] - a[1]
            elif op == "*":
                r = a[0] * a[1]
            elif op == "/":
                r = a[0] / a[1] if a[1] != 0 else None
            elif op == "neg":
                r = -a[0]
            elif op == "ite":
                r = None if a[0] is None else (a[1] if a[0] else a[2])
            elif op == "uf":
                r = FUN[n.val](*a)
                if isinstance(r, mp.mpc):
                    r = None
            elif op == "<":
                r = a[0] < a[1]
            elif op == "<=":
                r = a[0] <= a[1]
            elif op == "==":
                r = a[0] == a[1]
            elif op == "not":
                r = not a[0]
            elif op == "and":
                r = all(a)
            elif op == "or":
                r = any(a)
            elif op == "true":
                r = True
            elif op == "false":
                r = False
            else:
                raise NotImplementedError(op)
        except (ValueError, ZeroDivisionError, OverflowError):
            r = None
        val[n.uid] = r
    return [val[r.uid] for r in roots]
