"""Equivalence / satisfiability queries over term DAGs.

Pipeline (DESIGN §1.5):  UF applications -> fresh reals + side constraints (Ackermann congruence,
algebraic definitions, exp/log laws);  both sides -> num/den (ITE-aware), denominators asserted
non-zero;  query  pc ∧ side ∧ num_g·den_r − num_r·den_g ≠ 0  to z3, cvc5 on `unknown`.

Abstraction only weakens what the solver knows, so `unsat` is sound; a `sat` may be spurious and is
never reported without the replay gate.
"""
import time
from fractions import Fraction

import z3

from . import terms as tm

c = tm.const

STATS = {"queries": 0, "unsat": 0, "sat": 0, "unknown": 0, "solver_s": 0.0, "cvc5_used": 0}


# ------------------------------------------------------------------ fraction form
def _one(t):
    return t.op == "c" and t.val == 1


class Frac:
    def __init__(self):
        self.memo = {}

    def frac(self, t):
        memo = self.memo
        for n in tm.postorder([t]):
            if n.uid in memo or n.sort == "B":
                continue
            memo[n.uid] = self._f(n)
        return memo[t.uid]

    def _f(self, n):
        op = n.op
        if op in ("c", "v"):
            return (n, c(1))
        m = self.memo
        if op in ("+", "-"):
            (a, b), (x, y) = m[n.args[0].uid], m[n.args[1].uid]
            f = tm.add if op == "+" else tm.sub
            if b is y:
                return (f(a, x), b)
            if _one(y):
                return (f(a, tm.mul(x, b)), b)
            if _one(b):
                return (f(tm.mul(a, y), x), y)
            return (f(tm.mul(a, y), tm.mul(x, b)), tm.mul(b, y))
        if op == "neg":
            a, b = m[n.args[0].uid]
            return (tm.neg(a), b)
        if op == "*":
            (a, b), (x, y) = m[n.args[0].uid], m[n.args[1].uid]
            return (tm.mul(a, x), tm.mul(b, y))
        if op == "/":
            (a, b), (x, y) = m[n.args[0].uid], m[n.args[1].uid]
            return (tm.mul(a, y), tm.mul(b, x))
        if op == "ite":
            cnd = self.cond(n.args[0])
            (a, b), (x, y) = m[n.args[1].uid], m[n.args[2].uid]
            if b is y:
                return (tm.ite(cnd, a, x), b)
            return (tm.ite(cnd, a, x), tm.ite(cnd, b, y))
        raise NotImplementedError("frac of %s (UFs must be abstracted first)" % op)

    def cond(self, t):
        """division-free version of a condition (all denominators are asserted non-zero elsewhere)"""
        key = ("c", t.uid)
        r = self.memo.get(key)
        if r is not None:
            return r
        op = t.op
        if op in ("true", "false", "bv"):
            r = t
        elif op in ("<", "<=", "=="):
            (a, b) = self.frac(t.args[0])
            (x, y) = self.frac(t.args[1])
            if _one(b) and _one(y):
                r = tm._cmp(op, a, x)
            else:
                diff = tm.sub(tm.mul(a, y), tm.mul(x, b))
                if op == "==":
                    r = tm.eq(diff, c(0))
                else:
                    den = b if _one(y) else (y if _one(b) else tm.mul(b, y))
                    r = tm._cmp(op, tm.mul(diff, den), c(0))
        elif op == "not":
            r = tm.not_(self.cond(t.args[0]))
        elif op == "and":
            r = tm.and_(*[self.cond(a) for a in t.args])
        elif op == "or":
            r = tm.or_(*[self.cond(a) for a in t.args])
        else:
            raise NotImplementedError(op)
        self.memo[key] = r
        return r

    def denominators(self):
        seen = set()
        out = []
        for k, v in self.memo.items():
            if isinstance(k, tuple):
                continue
            d = v[1]
            if not d.op == "c" and d.uid not in seen:
                seen.add(d.uid)
                out.append(d)
        return out


# ------------------------------------------------------------------ UF abstraction
class Abstraction:
    def __init__(self):
        self.apps = []  # (name, abstract args, fresh var, original term)
        self.map = {}
        self._key = {}

    def run(self, roots):
        m = self.map
        for n in tm.postorder(roots):
            if n.uid in m:
                continue
            if not n.args:
                m[n.uid] = n
                continue
            na = tuple(m[a.uid] for a in n.args)
            if n.op == "uf":
                key = (n.val,) + tuple(a.uid for a in na)
                v = self._key.get(key)
                if v is None:
                    v = tm.var("uf!%d!%s" % (len(self.apps), n.val))
                    self._key[key] = v
                    self.apps.append((n.val, na, v, n))
                m[n.uid] = v
            elif all(x is y for x, y in zip(na, n.args)):
                m[n.uid] = n
            else:
                m[n.uid] = tm.rebuild(n, na)
        return [m[r.uid] for r in roots]

    def _numeric_args(self):
        """(value of first argument, value of the application) of every app at a fixed pseudo-random point"""
        import random

        from . import numeric

        origs = [o for _, _, _, o in self.apps]
        names = tm.variables(origs)
        rnd = random.Random(12345)
        env = {n: Fraction(rnd.randint(5, 40), rnd.randint(7, 23)) for n in names}
        roots = []
        for o in origs:
            roots.append(o.args[0])
            roots.append(o)
        try:
            vals = numeric.evaluate(roots, env)
        except Exception:
            vals = [None] * len(roots)
        out = []
        for k in range(len(origs)):
            a, v = vals[2 * k], vals[2 * k + 1]
            out.append((None if a is None else float(a), None if v is None else float(v)))
        return out

    def side_conditions(self, fr, numeric_bounds=True):
        """facts about the abstracted applications, as division-free conditions"""
        side = []
        apps = self.apps
        F = [[fr.frac(a) for a in args] for _, args, _, _ in apps]
        byf = {}

        def same(i, j):
            return tm.and_(
                *[
                    tm.eq(tm.mul(n1, d2), tm.mul(n2, d1))
                    for (n1, d1), (n2, d2) in zip(F[i], F[j])
                ]
            )

        def arg_is(i, q):  # single-arg app: arg == rational q
            n, d = F[i][0]
            return tm.eq(n, tm.mul(c(q), d))

        for i, (f, args, v, orig) in enumerate(apps):
            n, d = F[i][0]
            if f == "sqrt":
                side += [tm.le(c(0), v), tm.eq(tm.mul(tm.mul(v, v), d), n)]
            elif f == "cbrt":
                side += [tm.eq(tm.mul(tm.mul(tm.mul(v, v), v), d), n)]
            elif f == "exp":
                side += [tm.lt(c(0), v), _imp(arg_is(i, 0), tm.eq(v, c(1)))]
            elif f == "log":
                side += [_imp(arg_is(i, 1), tm.eq(v, c(0)))]
            elif f in ("sin", "arcsin", "arctan", "arcsinh", "arctanh"):
                side += [_imp(arg_is(i, 0), tm.eq(v, c(0)))]
            elif f == "cos":
                side += [_imp(arg_is(i, 0), tm.eq(v, c(1)))]
            elif f == "POW":
                # x**0 = 1, x**1 = x
                (xn, xd), (yn, yd) = F[i]
                side += [
                    tm.lt(c(0), v),
                    _imp(tm.eq(yn, c(0)), tm.eq(v, c(1))),
                    _imp(tm.eq(yn, yd), tm.eq(tm.mul(v, xd), xn)),
                ]
            if f in ("sin", "cos"):
                side += [tm.le(c(-1), v), tm.le(v, c(1))]
            for j in byf.get(f, []):
                side.append(_imp(same(i, j), tm.eq(v, apps[j][2])))
            byf.setdefault(f, []).append(i)
            if numeric_bounds and all(a.op == "c" for a in args):
                lo, hi = _const_bounds(f, [a.val for a in args])
                if lo is not None:
                    side += [tm.lt(c(lo), v), tm.lt(v, c(hi))]
        # sin^2 + cos^2 = 1 on equal arguments
        for i in byf.get("sin", []):
            for j in byf.get("cos", []):
                si, cj = apps[i][2], apps[j][2]
                side.append(_imp(same(i, j), tm.eq(tm.add(tm.mul(si, si), tm.mul(cj, cj)), c(1))))
        # exp laws: exp(a) = exp(b) * exp(c) when a = b + c ; exp(a) * exp(b) = 1 when a = -b.
        # Candidate instances are filtered at a random rational point (an instance whose antecedent is
        # false there is not an identity; dropping it only weakens the side conditions, which is sound).
        ex = byf.get("exp", [])
        lg = byf.get("log", [])
        num = self._numeric_args()
        def close(a, b):
            return a is not None and b is not None and abs(a - b) <= 1e-9 * max(1.0, abs(a), abs(b))
        for x in range(len(ex)):
            for y in range(x):
                i, j = ex[x], ex[y]
                (n1, d1), (n2, d2) = F[i][0], F[j][0]
                vi, vj = apps[i][2], apps[j][2]
                ai, aj = num[i][0], num[j][0]
                if ai is None or aj is None or close(ai, -aj):
                    side.append(
                        _imp(tm.eq(tm.add(tm.mul(n1, d2), tm.mul(n2, d1)), c(0)), tm.eq(tm.mul(vi, vj), c(1)))
                    )
                for k in lg:
                    (sn, sd) = F[k][0]
                    u = apps[k][2]
                    uk = num[k][1]
                    lhs = tm.sub(tm.mul(n1, d2), tm.mul(n2, d1))
                    dd = tm.mul(d1, d2)
                    if ai is None or aj is None or uk is None or close(ai - aj, uk):
                        side.append(_imp(tm.eq(lhs, tm.mul(u, dd)), tm.eq(tm.mul(vi, sd), tm.mul(vj, sn))))
                    if ai is None or aj is None or uk is None or close(ai - aj, -uk):
                        side.append(_imp(tm.eq(lhs, tm.neg(tm.mul(u, dd))), tm.eq(tm.mul(vi, sn), tm.mul(vj, sd))))
        ntrip = 0
        for x in ex:
            for y in ex:
                for z in ex:
                    if not (y < z) or x in (y, z):
                        continue
                    ax, ay, az = num[x][0], num[y][0], num[z][0]
                    if ax is None or ay is None or az is None or not close(ax, ay + az):
                        continue
                    ntrip += 1
                    if ntrip > 200:
                        break
                    (n1, d1), (n2, d2), (n3, d3) = F[x][0], F[y][0], F[z][0]
                    lhs = tm.mul(n1, tm.mul(d2, d3))
                    rhs = tm.mul(d1, tm.add(tm.mul(n2, d3), tm.mul(n3, d2)))
                    side.append(
                        _imp(tm.eq(lhs, rhs), tm.eq(apps[x][2], tm.mul(apps[y][2], apps[z][2])))
                    )
        # exp(log(S)) = S , log(exp(a)) = a
        for i in ex:
            for k in lg:
                (n1, d1) = F[i][0]
                (sn, sd) = F[k][0]
                side.append(_imp(tm.eq(n1, tm.mul(apps[k][2], d1)), tm.eq(tm.mul(apps[i][2], sd), sn)))
                side.append(_imp(tm.eq(sn, tm.mul(apps[i][2], sd)), tm.eq(tm.mul(apps[k][2], d1), n1)))
        # POW shift: POW(x,a) = POW(x,b) * x^k when a - b = k (k = 1)
        pw = byf.get("POW", [])
        for x in range(len(pw)):
            for y in range(len(pw)):
                if x == y:
                    continue
                i, j = pw[x], pw[y]
                (xn1, xd1), (yn1, yd1) = F[i]
                (xn2, xd2), (yn2, yd2) = F[j]
                samebase = tm.eq(tm.mul(xn1, xd2), tm.mul(xn2, xd1))
                # y1 = y2 + 1
                shift = tm.eq(tm.mul(yn1, yd2), tm.mul(tm.add(yn2, yd2), yd1))
                side.append(
                    _imp(tm.and_(samebase, shift), tm.eq(tm.mul(apps[i][2], xd2), tm.mul(apps[j][2], xn2)))
                )
        # POW(x, y) with log(x): no algebraic link needed (table rows use both symbols consistently)
        return side


def _imp(a, b):
    return tm.or_(tm.not_(a), b)


def _const_bounds(f, vals):
    try:
        import mpmath as mp

        mp.mp.dps = 40
        fn = {
            "exp": mp.exp,
            "log": mp.log,
            "sin": mp.sin,
            "cos": mp.cos,
            "arcsin": mp.asin,
            "arccos": mp.acos,
            "arctan": mp.atan,
            "arcsinh": mp.asinh,
            "arccosh": mp.acosh,
            "arctanh": mp.atanh,
            "sqrt": mp.sqrt,
            "cbrt": mp.cbrt,
            "POW": lambda x, y: mp.power(x, y),
            "arctan2": mp.atan2,
        }[f]
        r = fn(*[mp.mpf(v.numerator) / mp.mpf(v.denominator) for v in vals])
        if not isinstance(r, mp.mpf):
            return None, None
        q = Fraction(str(mp.nstr(r, 30)))
        eps = Fraction(1, 10**12) * max(1, abs(q))
        return q - eps, q + eps
    except Exception:
        return None, None


PI_LO = Fraction(31415926535, 10**10)
PI_HI = Fraction(31415926536, 10**10)


# ------------------------------------------------------------------ solver front end
class Result:
    __slots__ = ("verdict", "model", "time", "solver")

    def __init__(self, verdict, model=None, t=0.0, solver="z3"):
        self.verdict = verdict
        self.model = model
        self.time = t
        self.solver = solver

    def __repr__(self):
        return "Result(%s, %.3fs)" % (self.verdict, self.time)


def _num(v):
    if z3.is_rational_value(v):
        return Fraction(v.numerator_as_long(), v.denominator_as_long())
    if z3.is_algebraic_value(v):
        a = v.approx(30)
        return Fraction(a.numerator_as_long(), a.denominator_as_long())
    if z3.is_int_value(v):
        return Fraction(v.as_long())
    return None


def solve(conds, timeout_ms=10000, want_model=True, nice_vars=None, use_cvc5=True):
    """conds: list of division-free, UF-free conditions (terms.T).  Returns Result."""
    STATS["queries"] += 1
    t0 = time.time()
    s = z3.Solver()
    s.set("timeout", timeout_ms)
    zs = [tm.to_z3(x) for x in conds]
    s.add(*zs)
    r = s.check()
    verdict = str(r)
    model = None
    solver = "z3"
    if r == z3.unknown and use_cvc5:
        v2 = _cvc5_check(s, timeout_ms)
        if v2 in ("sat", "unsat"):
            STATS["cvc5_used"] += 1
            solver = "cvc5"
            verdict = v2
            if v2 == "sat":
                # get a model from z3 with a larger budget if possible, else leave None
                s.set("timeout", timeout_ms * 3)
                r = s.check()
                if r != z3.sat:
                    r = None
    if verdict == "sat" and want_model and r == z3.sat:
        m = s.model()
        if nice_vars:
            s2 = z3.Solver()
            s2.set("timeout", min(timeout_ms, 3000))
            s2.add(*zs)
            for name in nice_vars:
                x = z3.Real(name)
                s2.add(z3.Or(z3.And(x >= z3.RealVal("1/8"), x <= 8), z3.And(x <= -z3.RealVal("1/8"), x >= -8)))
            if s2.check() == z3.sat:
                m = s2.model()
        model = {}
        for dcl in m.decls():
            if dcl.arity() == 0:
                val = m[dcl]
                if z3.is_bool(val):
                    model[dcl.name()] = bool(z3.is_true(val))
                else:
                    q = _num(val)
                    if q is not None:
                        model[dcl.name()] = q
    dt = time.time() - t0
    STATS[verdict] = STATS.get(verdict, 0) + 1
    STATS["solver_s"] += dt
    return Result(verdict, model, dt, solver)


def _cvc5_check(z3solver, timeout_ms):
    try:
        import cvc5
    except Exception:
        return "unknown"
    try:
        text = z3solver.to_smt2()
        tmgr = cvc5.TermManager() if hasattr(cvc5, "TermManager") else None
        slv = cvc5.Solver(tmgr) if tmgr is not None else cvc5.Solver()
        slv.setOption("tlimit-per", str(int(timeout_ms)))
        slv.setLogic("QF_NRA")
        parser = cvc5.InputParser(slv)
        parser.setStringInput(cvc5.InputLanguage.SMT_LIB_2_6, text, "q")
        sm = parser.getSymbolManager()
        while True:
            cmd = parser.nextCommand()
            if cmd.isNull():
                break
            out = cmd.invoke(slv, sm)
            o = str(out).strip()
            if o in ("sat", "unsat", "unknown"):
                return o
        return "unknown"
    except Exception:
        return "unknown"


# ------------------------------------------------------------------ high-level
class Problem:
    """A set of conditions + terms over the original symbols, prepared once per path."""

    def __init__(self, conds, numeric_bounds=True):
        self.ab = Abstraction()
        self.fr = Frac()
        self.conds_in = list(conds)
        self.numeric_bounds = numeric_bounds
        self._base = None

    def _prepare(self, terms):
        roots = list(terms) + self.conds_in
        out = self.ab.run(roots)
        ts, cs = out[: len(terms)], out[len(terms) :]
        return ts, cs

    def base_conditions(self, extra_terms=()):
        ts, cs = self._prepare(list(extra_terms))
        fr = self.fr
        pairs = [fr.frac(t) for t in ts]
        conds = [fr.cond(x) for x in cs]
        side = self.ab.side_conditions(fr, self.numeric_bounds)
        side = [fr.cond(x) for x in side]
        dens = [tm.ne(d, c(0)) for d in fr.denominators()]
        pi = tm._TABLE.get(("v", "PI!", ()))
        extra = []
        if pi is not None:
            extra = [tm.lt(c(PI_LO), pi), tm.lt(pi, c(PI_HI))]
        return pairs, conds + side + dens + extra

    def reachable(self, timeout_ms=5000, nice_vars=None):
        _, base = self.base_conditions()
        return solve(base, timeout_ms, nice_vars=nice_vars)

    def differ(self, got, ref, timeout_ms=10000, nice_vars=None):
        """is there a point satisfying the conditions where got != ref ?"""
        if got is ref:
            STATS["queries"] += 1
            STATS["unsat"] += 1
            STATS["identical"] = STATS.get("identical", 0) + 1
            return Result("unsat", None, 0.0, "identical-term")
        (gn, gd), (rn, rd) = self.base_conditions([got, ref])[0]
        _, base = self.base_conditions([got, ref])
        neq = tm.ne(tm.mul(gn, rd), tm.mul(rn, gd))
        return solve(base + [neq], timeout_ms, nice_vars=nice_vars)

    def differ_any(self, pairs, timeout_ms=10000, nice_vars=None):
        """one query for a list of (got, ref) pairs: sat iff some pair can differ"""
        pairs = [(g, r) for g, r in pairs if g is not r]
        if not pairs:
            STATS["queries"] += 1
            STATS["unsat"] += 1
            STATS["identical"] = STATS.get("identical", 0) + 1
            return Result("unsat", None, 0.0, "identical-term")
        flat = [t for p in pairs for t in p]
        fr_pairs, base = self.base_conditions(flat)
        diffs = []
        for i in range(0, len(fr_pairs), 2):
            (gn, gd), (rn, rd) = fr_pairs[i], fr_pairs[i + 1]
            diffs.append(tm.ne(tm.mul(gn, rd), tm.mul(rn, gd)))
        return solve(base + [tm.or_(*diffs)], timeout_ms, nice_vars=nice_vars)

    def holds(self, cond, timeout_ms=10000, nice_vars=None):
        """is `cond` valid under the conditions?  (query its negation)"""
        (cz,) = self.ab.run([cond])
        _, base = self.base_conditions()
        return solve(base + [tm.not_(self.fr.cond(cz))], timeout_ms, nice_vars=nice_vars)
