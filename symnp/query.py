"""Equivalence / satisfiability queries over term DAGs.

Pipeline (DESIGN §1.5):  UF applications -> fresh reals + side constraints (Ackermann congruence,
algebraic definitions, exp/log laws);  both sides -> num/den (ITE-aware), denominators asserted
non-zero;  query  pc ∧ side ∧ num_g·den_r − num_r·den_g ≠ 0  to z3, cvc5 on `unknown`.

Abstraction only weakens what the solver knows, so `unsat` is sound; a `sat` may be spurious and is
never reported without the replay gate.
"""
import time
from fractions import Fraction

import z3

from . import terms as tm

c = tm.const

STATS = {"queries": 0, "unsat": 0, "sat": 0, "unknown": 0, "solver_s": 0.0, "cvc5_used": 0}


# ------------------------------------------------------------------ fraction form
def _one(t):
    return t.op == "c" and t.val == 1


class Frac:
    """Rational-function normal form with *factored* denominators.

    value(t) = coef · core · Π NF / Π DF   where NF/DF are multisets of atomic factor terms.
    Keeping denominators factored lets sums use the least common multiple, which keeps the degree of
    the final cross-multiplied identity low (deep compositions such as GRU, softmax, batchnorm)."""

    def __init__(self):
        self.memo = {}
        self.pair = {}
        self.atoms = {}

    # -- multiset helpers (dict uid -> (term, power))
    @staticmethod
    def _madd(a, b):
        r = dict(a)
        for k, (t, p) in b.items():
            if k in r:
                r[k] = (t, r[k][1] + p)
            else:
                r[k] = (t, p)
        return r

    @staticmethod
    def _msub(a, b):
        """a - b (powers), assumes b <= a"""
        r = {}
        for k, (t, p) in a.items():
            q = p - (b[k][1] if k in b else 0)
            if q > 0:
                r[k] = (t, q)
        return r

    @staticmethod
    def _mmin(a, b):
        r = {}
        for k, (t, p) in a.items():
            if k in b:
                r[k] = (t, min(p, b[k][1]))
        return r

    @staticmethod
    def _mmax(a, b):
        r = dict(a)
        for k, (t, p) in b.items():
            if k in r:
                r[k] = (t, max(p, r[k][1]))
            else:
                r[k] = (t, p)
        return r

    @staticmethod
    def _mprod(m):
        r = c(1)
        for k in sorted(m):
            t, p = m[k]
            for _ in range(p):
                r = tm.mul(r, t)
        return r

    def _norm(self, coef, core, NF, DF):
        if coef == 0 or tm.is_zero(core):
            return (Fraction(0), c(1), {}, {})
        if core.op == "c":
            coef = coef * core.val
            core = c(1)
        if core.op == "neg":
            coef = -coef
            core = core.args[0]
        com = self._mmin(NF, DF)
        if com:
            NF = self._msub(NF, com)
            DF = self._msub(DF, com)
        return (coef, core, NF, DF)

    def _leaf_factor(self, t):
        return (Fraction(1), c(1), {t.uid: (t, 1)}, {})

    def nf(self, t):
        memo = self.memo
        for n in tm.postorder([t]):
            if n.uid in memo or n.sort == "B":
                continue
            memo[n.uid] = self._f(n)
        return memo[t.uid]

    def _expand(self, x, mult):
        """term for coef·core·ΠNF·Πmult (unexpanded product)"""
        coef, core, NF, _ = x
        r = tm.mul(core, self._mprod(self._madd(NF, mult)))
        if coef != 1:
            r = tm.mul(c(coef), r)
        return r

    def _addsub(self, x, y, sign):
        if x[0] == 0:
            return y if sign > 0 else (-y[0], y[1], y[2], y[3])
        if y[0] == 0:
            return x
        L = self._mmax(x[3], y[3])
        G = self._mmin(x[2], y[2])
        xa = (x[0], x[1], self._msub(x[2], G), None)
        ya = (y[0], y[1], self._msub(y[2], G), None)
        tx = self._expand(xa, self._msub(L, x[3]))
        ty = self._expand(ya, self._msub(L, y[3]))
        core = tm.add(tx, ty) if sign > 0 else tm.sub(tx, ty)
        return self._norm(Fraction(1), core, G, L)

    def _f(self, n):
        op = n.op
        m = self.memo
        if op == "c":
            return (n.val, c(1), {}, {})
        if op == "v":
            return self._leaf_factor(n)
        if op == "+":
            return self._addsub(m[n.args[0].uid], m[n.args[1].uid], +1)
        if op == "-":
            return self._addsub(m[n.args[0].uid], m[n.args[1].uid], -1)
        if op == "neg":
            x = m[n.args[0].uid]
            return (-x[0], x[1], x[2], x[3])
        if op == "*":
            x, y = m[n.args[0].uid], m[n.args[1].uid]
            return self._norm(x[0] * y[0], tm.mul(x[1], y[1]), self._madd(x[2], y[2]), self._madd(x[3], y[3]))
        if op == "/":
            x, y = m[n.args[0].uid], m[n.args[1].uid]
            if y[0] == 0:
                raise ZeroDivisionError("division by a term that normalises to zero")
            invN = dict(y[3])
            invD = dict(y[2])
            if not _one(y[1]):
                invD = self._madd(invD, {y[1].uid: (y[1], 1)})
            for k, (t, p) in invD.items():
                self.atoms[k] = t
            return self._norm(x[0] / y[0], x[1], self._madd(x[2], invN), self._madd(x[3], invD))
        if op == "ite":
            cnd = self.cond(n.args[0])
            x, y = m[n.args[1].uid], m[n.args[2].uid]
            L = self._mmax(x[3], y[3])
            G = self._mmin(x[2], y[2])
            tx = self._expand((x[0], x[1], self._msub(x[2], G), None), self._msub(L, x[3]))
            ty = self._expand((y[0], y[1], self._msub(y[2], G), None), self._msub(L, y[3]))
            return self._norm(Fraction(1), tm.ite(cnd, tx, ty), G, L)
        raise NotImplementedError("normal form of %s (UFs must be abstracted first)" % op)

    # -- (num, den) as plain terms
    def frac(self, t):
        r = self.pair.get(t.uid)
        if r is None:
            x = self.nf(t)
            num = tm.mul(x[1], self._mprod(x[2]))
            if x[0] != 1:
                num = tm.mul(c(x[0]), num)
            r = (num, self._mprod(x[3]))
            self.pair[t.uid] = r
        return r

    def differs(self, a, b):
        """condition: a != b (given all denominator factors non-zero)"""
        x = self._addsub(self.nf(a), self.nf(b), -1)
        if x[0] == 0:
            return tm.false()
        return tm.ne(tm.mul(x[1], self._mprod(x[2])), c(0))

    def cond(self, t):
        """division-free version of a condition (all denominators are asserted non-zero elsewhere)"""
        key = ("c", t.uid)
        r = self.memo.get(key)
        if r is not None:
            return r
        op = t.op
        if op in ("true", "false", "bv"):
            r = t
        elif op in ("<", "<=", "=="):
            x = self._addsub(self.nf(t.args[0]), self.nf(t.args[1]), -1)
            if x[0] == 0:
                r = tm.true() if op in ("<=", "==") else tm.false()
            else:
                num = tm.mul(x[1], self._mprod(x[2]))
                if x[0] < 0:
                    num = tm.neg(num)
                if op == "==":
                    r = tm.eq(num, c(0))
                else:
                    # sign(num/den) = sign(num * Π odd-power den factors)
                    odd = {k: (tt, 1) for k, (tt, p) in x[3].items() if p % 2 == 1}
                    r = tm._cmp(op, tm.mul(num, self._mprod(odd)), c(0))
        elif op == "not":
            r = tm.not_(self.cond(t.args[0]))
        elif op == "and":
            r = tm.and_(*[self.cond(a) for a in t.args])
        elif op == "or":
            r = tm.or_(*[self.cond(a) for a in t.args])
        else:
            raise NotImplementedError(op)
        self.memo[key] = r
        return r

    def denominators(self):
        return [self.atoms[k] for k in sorted(self.atoms)]


# ------------------------------------------------------------------ UF abstraction
class Abstraction:
    def __init__(self):
        self.apps = []  # (name, abstract args, fresh var, original term)
        self.map = {}
        self._key = {}

    def run(self, roots):
        m = self.map
        for n in tm.postorder(roots):
            if n.uid in m:
                continue
            if not n.args:
                m[n.uid] = n
                continue
            na = tuple(m[a.uid] for a in n.args)
            if n.op == "uf":
                key = (n.val,) + tuple(a.uid for a in na)
                v = self._key.get(key)
                if v is None:
                    v = tm.var("uf!%d!%s" % (len(self.apps), n.val))
                    self._key[key] = v
                    self.apps.append((n.val, na, v, n))
                m[n.uid] = v
            elif all(x is y for x, y in zip(na, n.args)):
                m[n.uid] = n
            else:
                m[n.uid] = tm.rebuild(n, na)
        return [m[r.uid] for r in roots]

    def reduce(self, fr):
        """eliminate exp/log applications that are products/quotients of earlier ones.

        Candidates are found numerically at a pseudo-random point, then *proved* by a lemma query
        (linear identity between the abstracted arguments, no assumptions); only proven relations are
        used, as substitutions  v_k := v_i^{±1} · v_j^{±1} · S^{±1}.  Returns {uid: replacement}."""
        if not hasattr(self, "sub"):
            self.sub = {}
            self._reduced = 0
            self.lemmas = 0
        apps = self.apps
        if self._reduced >= len(apps):
            return self.sub
        num = self._numeric_args()

        def close(a, b):
            return a is not None and b is not None and abs(a - b) <= 1e-9 * max(1.0, abs(a), abs(b))

        def arg(i):
            return apps[i][1][0]

        def prove(lhs, rhs):
            self.lemmas += 1
            (n1, d1), (n2, d2) = fr.frac(lhs), fr.frac(rhs)
            cond = tm.eq(tm.mul(n1, d2), tm.mul(n2, d1))
            if cond.op == "true":
                return True
            sl = z3.Solver()
            sl.set("timeout", 1500)
            sl.add(z3.Not(tm.to_z3(cond)))
            return sl.check() == z3.unsat

        def val(i):  # current representation of app i
            return self.sub.get(apps[i][2].uid, apps[i][2])

        for k in range(self._reduced, len(apps)):
            f = apps[k][0]
            if f != "exp" or num[k][0] is None:
                continue
            ak = num[k][0]
            earlier = [i for i in range(k) if apps[i][0] == "exp" and num[i][0] is not None]
            logs = [i for i in range(len(apps)) if apps[i][0] == "log" and num[i][1] is not None and i != k]
            done = False
            one = c(1)
            cands = []
            for i in earlier:
                cands.append((num[i][0], arg(i), val(i)))
                cands.append((-num[i][0], tm.neg(arg(i)), tm.div(one, val(i))))
            for l in logs:
                # exp(±log S) = S^{±1}; only if the log's argument does not itself contain app k
                S = apps[l][1][0]
                if apps[k][2].uid in {t.uid for t in tm.postorder([S])}:
                    continue
                cands.append((num[l][1], apps[l][2], S))
                cands.append((-num[l][1], tm.neg(apps[l][2]), tm.div(one, S)))
            for (v1, a1, r1) in cands:
                if close(ak, v1) and prove(arg(k), a1):
                    self.sub[apps[k][2].uid] = r1
                    done = True
                    break
            if done:
                continue
            for x in range(len(cands)):
                if done:
                    break
                for y in range(x):
                    (v1, a1, r1), (v2, a2, r2) = cands[x], cands[y]
                    if close(ak, v1 + v2) and prove(arg(k), tm.add(a1, a2)):
                        self.sub[apps[k][2].uid] = tm.mul(r1, r2)
                        done = True
                        break
        # log(exp-var) = its argument ;  log(S·exp(a)^{±1}) = log(S) ± a  (proved after the exp substitutions)
        import math

        for k in range(self._reduced, len(apps)):
            if apps[k][0] != "log":
                continue
            S = apps[k][1][0]
            done = False
            for i in range(len(apps)):
                if apps[i][0] == "exp" and S is apps[i][2]:
                    self.sub[apps[k][2].uid] = arg(i)
                    done = True
            if done or num[k][0] is None or num[k][0] <= 0:
                continue
            for l in range(k):
                if done:
                    break
                if apps[l][0] != "log" or num[l][0] is None or num[l][0] <= 0:
                    continue
                ratio = num[l][0] / num[k][0]  # S_l / S_k
                for i in range(len(apps)):
                    if apps[i][0] != "exp" or num[i][1] is None:
                        continue
                    for sign in (1, -1):
                        if close(ratio, num[i][1] ** sign):
                            vi = apps[i][2]
                            lhs = tm.mul(S, vi) if sign == 1 else tm.div(S, vi)
                            a2 = tm.substitute([lhs, apps[l][1][0]], self.sub)
                            for _ in range(2):
                                a2 = tm.substitute(a2, self.sub)
                            if prove(a2[0], a2[1]):
                                # S_k · v_i^{sign} = S_l  =>  log S_k = log S_l - sign·a_i
                                ul = self.sub.get(apps[l][2].uid, apps[l][2])
                                self.sub[apps[k][2].uid] = tm.sub(ul, arg(i)) if sign == 1 else tm.add(ul, arg(i))
                                done = True
                                break
                    if done:
                        break
        self._reduced = len(apps)
        return self.sub

    def _numeric_args(self):
        """(value of first argument, value of the application) of every app at a fixed pseudo-random point"""
        import random

        from . import numeric

        origs = [o for _, _, _, o in self.apps]
        names = tm.variables(origs)
        rnd = random.Random(12345)
        env = {n: Fraction(rnd.randint(5, 40), rnd.randint(7, 23)) for n in names}
        roots = []
        for o in origs:
            roots.append(o.args[0])
            roots.append(o)
        try:
            vals = numeric.evaluate(roots, env)
        except Exception:
            vals = [None] * len(roots)
        out = []
        for k in range(len(origs)):
            a, v = vals[2 * k], vals[2 * k + 1]
            out.append((None if a is None else float(a), None if v is None else float(v)))
        return out

    def side_conditions(self, fr, numeric_bounds=True):
        """facts about the abstracted applications, as division-free conditions"""
        side = []
        apps = self.apps
        F = [[fr.frac(a) for a in args] for _, args, _, _ in apps]
        byf = {}

        def same(i, j):
            return tm.and_(
                *[
                    tm.eq(tm.mul(n1, d2), tm.mul(n2, d1))
                    for (n1, d1), (n2, d2) in zip(F[i], F[j])
                ]
            )

        def arg_is(i, q):  # single-arg app: arg == rational q
            n, d = F[i][0]
            return tm.eq(n, tm.mul(c(q), d))

        for i, (f, args, v, orig) in enumerate(apps):
            n, d = F[i][0]
            if f == "sqrt":
                side += [tm.le(c(0), v), tm.eq(tm.mul(tm.mul(v, v), d), n)]
            elif f == "cbrt":
                side += [tm.eq(tm.mul(tm.mul(tm.mul(v, v), v), d), n)]
            elif f == "exp":
                side += [tm.lt(c(0), v), _imp(arg_is(i, 0), tm.eq(v, c(1)))]
            elif f == "log":
                side += [_imp(arg_is(i, 1), tm.eq(v, c(0)))]
            elif f in ("sin", "arcsin", "arctan", "arcsinh", "arctanh"):
                side += [_imp(arg_is(i, 0), tm.eq(v, c(0)))]
            elif f == "cos":
                side += [_imp(arg_is(i, 0), tm.eq(v, c(1)))]
            elif f == "POW":
                # x**0 = 1, x**1 = x
                (xn, xd), (yn, yd) = F[i]
                side += [
                    tm.lt(c(0), v),
                    _imp(tm.eq(yn, c(0)), tm.eq(v, c(1))),
                    _imp(tm.eq(yn, yd), tm.eq(tm.mul(v, xd), xn)),
                ]
            if f in ("sin", "cos"):
                side += [tm.le(c(-1), v), tm.le(v, c(1))]
            for j in byf.get(f, []):
                side.append(_imp(same(i, j), tm.eq(v, apps[j][2])))
            byf.setdefault(f, []).append(i)
            if numeric_bounds and all(a.op == "c" for a in args):
                lo, hi = _const_bounds(f, [a.val for a in args])
                if lo is not None:
                    side += [tm.lt(c(lo), v), tm.lt(v, c(hi))]
        # sin^2 + cos^2 = 1 on equal arguments
        for i in byf.get("sin", []):
            for j in byf.get("cos", []):
                si, cj = apps[i][2], apps[j][2]
                side.append(_imp(same(i, j), tm.eq(tm.add(tm.mul(si, si), tm.mul(cj, cj)), c(1))))
        # exp laws: exp(a) = exp(b) * exp(c) when a = b + c ; exp(a) * exp(b) = 1 when a = -b.
        # Candidate instances are filtered at a random rational point (an instance whose antecedent is
        # false there is not an identity; dropping it only weakens the side conditions, which is sound).
        ex = byf.get("exp", [])
        lg = byf.get("log", [])
        num = self._numeric_args()
        def close(a, b):
            return a is not None and b is not None and abs(a - b) <= 1e-9 * max(1.0, abs(a), abs(b))
        for x in range(len(ex)):
            for y in range(x):
                i, j = ex[x], ex[y]
                (n1, d1), (n2, d2) = F[i][0], F[j][0]
                vi, vj = apps[i][2], apps[j][2]
                ai, aj = num[i][0], num[j][0]
                if ai is None or aj is None or close(ai, -aj):
                    side.append(
                        _imp(tm.eq(tm.add(tm.mul(n1, d2), tm.mul(n2, d1)), c(0)), tm.eq(tm.mul(vi, vj), c(1)))
                    )
                for k in lg:
                    (sn, sd) = F[k][0]
                    u = apps[k][2]
                    uk = num[k][1]
                    lhs = tm.sub(tm.mul(n1, d2), tm.mul(n2, d1))
                    dd = tm.mul(d1, d2)
                    if ai is None or aj is None or uk is None or close(ai - aj, uk):
                        side.append(_imp(tm.eq(lhs, tm.mul(u, dd)), tm.eq(tm.mul(vi, sd), tm.mul(vj, sn))))
                    if ai is None or aj is None or uk is None or close(ai - aj, -uk):
                        side.append(_imp(tm.eq(lhs, tm.neg(tm.mul(u, dd))), tm.eq(tm.mul(vi, sn), tm.mul(vj, sd))))
        ntrip = 0
        for x in ex:
            for y in ex:
                for z in ex:
                    if not (y < z) or x in (y, z):
                        continue
                    ax, ay, az = num[x][0], num[y][0], num[z][0]
                    if ax is None or ay is None or az is None or not close(ax, ay + az):
                        continue
                    ntrip += 1
                    if ntrip > 200:
                        break
                    (n1, d1), (n2, d2), (n3, d3) = F[x][0], F[y][0], F[z][0]
                    lhs = tm.mul(n1, tm.mul(d2, d3))
                    rhs = tm.mul(d1, tm.add(tm.mul(n2, d3), tm.mul(n3, d2)))
                    side.append(
                        _imp(tm.eq(lhs, rhs), tm.eq(apps[x][2], tm.mul(apps[y][2], apps[z][2])))
                    )
        # exp(log(S)) = S , log(exp(a)) = a
        for i in ex:
            for k in lg:
                (n1, d1) = F[i][0]
                (sn, sd) = F[k][0]
                side.append(_imp(tm.eq(n1, tm.mul(apps[k][2], d1)), tm.eq(tm.mul(apps[i][2], sd), sn)))
                side.append(_imp(tm.eq(sn, tm.mul(apps[i][2], sd)), tm.eq(tm.mul(apps[k][2], d1), n1)))
        # POW shift: POW(x,a) = POW(x,b) * x^k when a - b = k (k = 1)
        pw = byf.get("POW", [])
        for x in range(len(pw)):
            for y in range(len(pw)):
                if x == y:
                    continue
                i, j = pw[x], pw[y]
                (xn1, xd1), (yn1, yd1) = F[i]
                (xn2, xd2), (yn2, yd2) = F[j]
                samebase = tm.eq(tm.mul(xn1, xd2), tm.mul(xn2, xd1))
                # y1 = y2 + 1
                shift = tm.eq(tm.mul(yn1, yd2), tm.mul(tm.add(yn2, yd2), yd1))
                side.append(
                    _imp(tm.and_(samebase, shift), tm.eq(tm.mul(apps[i][2], xd2), tm.mul(apps[j][2], xn2)))
                )
        # POW(x, y) with log(x): no algebraic link needed (table rows use both symbols consistently)
        return side


def _imp(a, b):
    return tm.or_(tm.not_(a), b)


def _const_bounds(f, vals):
    try:
        import mpmath as mp

        mp.mp.dps = 40
        fn = {
            "exp": mp.exp,
            "log": mp.log,
            "sin": mp.sin,
            "cos": mp.cos,
            "arcsin": mp.asin,
            "arccos": mp.acos,
            "arctan": mp.atan,
            "arcsinh": mp.asinh,
            "arccosh": mp.acosh,
            "arctanh": mp.atanh,
            "sqrt": mp.sqrt,
            "cbrt": mp.cbrt,
            "POW": lambda x, y: mp.power(x, y),
            "arctan2": mp.atan2,
        }[f]
        r = fn(*[mp.mpf(v.numerator) / mp.mpf(v.denominator) for v in vals])
        if not isinstance(r, mp.mpf):
            return None, None
        q = Fraction(str(mp.nstr(r, 30)))
        eps = Fraction(1, 10**12) * max(1, abs(q))
        return q - eps, q + eps
    except Exception:
        return None, None


PI_LO = Fraction(31415926535, 10**10)
PI_HI = Fraction(31415926536, 10**10)


# ------------------------------------------------------------------ solver front end
class Result:
    __slots__ = ("verdict", "model", "time", "solver")

    def __init__(self, verdict, model=None, t=0.0, solver="z3"):
        self.verdict = verdict
        self.model = model
        self.time = t
        self.solver = solver

    def __repr__(self):
        return "Result(%s, %.3fs)" % (self.verdict, self.time)


def _num(v):
    if z3.is_rational_value(v):
        return Fraction(v.numerator_as_long(), v.denominator_as_long())
    if z3.is_algebraic_value(v):
        a = v.approx(30)
        return Fraction(a.numerator_as_long(), a.denominator_as_long())
    if z3.is_int_value(v):
        return Fraction(v.as_long())
    return None


def solve(conds, timeout_ms=10000, want_model=True, nice_vars=None, use_cvc5=True):
    """conds: list of division-free, UF-free conditions (terms.T).  Returns Result."""
    STATS["queries"] += 1
    t0 = time.time()
    s = z3.Solver()
    s.set("timeout", timeout_ms)
    zs = [tm.to_z3(x) for x in conds]
    s.add(*zs)
    r = s.check()
    verdict = str(r)
    model = None
    solver = "z3"
    if r == z3.unknown and use_cvc5:
        v2 = _cvc5_check(s, timeout_ms)
        if v2 in ("sat", "unsat"):
            STATS["cvc5_used"] += 1
            solver = "cvc5"
            verdict = v2
            if v2 == "sat":
                # get a model from z3 with a larger budget if possible, else leave None
                s.set("timeout", timeout_ms * 3)
                r = s.check()
                if r != z3.sat:
                    r = None
    if verdict == "unknown":
        # last resort before reporting inconclusive (a loaded machine must not turn a decidable query into `unknown`)
        s.set("timeout", int(timeout_ms) * 4)
        r = s.check()
        if r != z3.unknown:
            verdict = str(r)
            solver = "z3-retry"
            STATS["retried"] = STATS.get("retried", 0) + 1
    if verdict == "sat" and want_model and r == z3.sat:
        m = s.model()
        if nice_vars:
            s2 = z3.Solver()
            s2.set("timeout", min(timeout_ms, 3000))
            s2.add(*zs)
            for name in nice_vars:
                x = z3.Real(name)
                s2.add(z3.Or(z3.And(x >= z3.RealVal("1/8"), x <= 8), z3.And(x <= -z3.RealVal("1/8"), x >= -8)))
            if s2.check() == z3.sat:
                m = s2.model()
        model = {}
        for dcl in m.decls():
            if dcl.arity() == 0:
                val = m[dcl]
                if z3.is_bool(val):
                    model[dcl.name()] = bool(z3.is_true(val))
                else:
                    q = _num(val)
                    if q is not None:
                        model[dcl.name()] = q
    dt = time.time() - t0
    STATS[verdict] = STATS.get(verdict, 0) + 1
    STATS["solver_s"] += dt
    return Result(verdict, model, dt, solver)


def _cvc5_check(z3solver, timeout_ms):
    """second opinion: the same SMT-LIB text to cvc5 (wheel), in a child process with a hard time limit"""
    import os
    import subprocess
    import sys

    try:
        text = z3solver.to_smt2()
        here = os.path.dirname(os.path.abspath(__file__))
        p = subprocess.run(
            [sys.executable, os.path.join(here, "cvc5_run.py"), str(int(timeout_ms))],
            input=text, capture_output=True, text=True, timeout=timeout_ms / 1000.0 + 10,
        )
        out = (p.stdout or "").strip().splitlines()
        if "(error" in (p.stdout or "") or "(error" in (p.stderr or ""):
            return "unknown"
        for line in out:
            if line.strip() in ("sat", "unsat"):
                return line.strip()
        return "unknown"
    except Exception:
        return "unknown"


# ------------------------------------------------------------------ high-level
class Problem:
    """A set of conditions + terms over the original symbols, prepared once per path."""

    def __init__(self, conds, numeric_bounds=True):
        self.ab = Abstraction()
        self.fr = Frac()
        self.conds_in = list(conds)
        self.numeric_bounds = numeric_bounds
        self._base = None

    def _prepare(self, terms):
        roots = list(terms) + self.conds_in
        out = self.ab.run(roots)
        ts, cs = out[: len(terms)], out[len(terms) :]
        return ts, cs

    def base_conditions(self, extra_terms=(), raw=False):
        ts, cs = self._prepare(list(extra_terms))
        fr = self.fr
        side = self.ab.side_conditions(fr, self.numeric_bounds)
        sub = self.ab.reduce(fr)
        if sub:
            # resolve chains (a replacement may mention an app that was itself replaced later)
            allt = tm.substitute(ts + cs + side, sub)
            for _ in range(3):
                allt = tm.substitute(allt, sub)
            ts, cs, side = allt[: len(ts)], allt[len(ts) : len(ts) + len(cs)], allt[len(ts) + len(cs) :]
        if raw:
            for t in ts:
                fr.nf(t)
            pairs = ts
        else:
            pairs = [fr.frac(t) for t in ts]
        conds = [fr.cond(x) for x in cs]
        side = [fr.cond(x) for x in side]
        dens = [tm.ne(d, c(0)) for d in fr.denominators()]
        pi = tm._TABLE.get(("v", "PI!", ()))
        extra = []
        if pi is not None:
            extra = [tm.lt(c(PI_LO), pi), tm.lt(pi, c(PI_HI))]
        return pairs, conds + side + dens + extra

    def reachable(self, timeout_ms=5000, nice_vars=None):
        _, base = self.base_conditions()
        return solve(base, timeout_ms, nice_vars=nice_vars)

    def differ(self, got, ref, timeout_ms=10000, nice_vars=None):
        """is there a point satisfying the conditions where got != ref ?"""
        if got is ref:
            STATS["queries"] += 1
            STATS["unsat"] += 1
            STATS["identical"] = STATS.get("identical", 0) + 1
            return Result("unsat", None, 0.0, "identical-term")
        (g2, r2), base = self.base_conditions([got, ref], raw=True)
        neq = self.fr.differs(g2, r2)
        return solve(base + [neq], timeout_ms, nice_vars=nice_vars)

    def differ_any(self, pairs, timeout_ms=10000, nice_vars=None):
        """one query for a list of (got, ref) pairs: sat iff some pair can differ"""
        pairs = [(g, r) for g, r in pairs if g is not r]
        if not pairs:
            STATS["queries"] += 1
            STATS["unsat"] += 1
            STATS["identical"] = STATS.get("identical", 0) + 1
            return Result("unsat", None, 0.0, "identical-term")
        flat = [t for p in pairs for t in p]
        ts, base = self.base_conditions(flat, raw=True)
        diffs = []
        for i in range(0, len(ts), 2):
            diffs.append(self.fr.differs(ts[i], ts[i + 1]))
        return solve(base + [tm.or_(*diffs)], timeout_ms, nice_vars=nice_vars)

    def holds(self, cond, timeout_ms=10000, nice_vars=None):
        """is `cond` valid under the conditions?  (query its negation)"""
        (cz,) = self.ab.run([cond])
        _, base = self.base_conditions()
        return solve(base + [tm.not_(self.fr.cond(cz))], timeout_ms, nice_vars=nice_vars)
