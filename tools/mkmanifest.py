#!/usr/bin/env python3
"""regenerates MANIFEST.json from the table below (keeps not_applicable current)"""
import json, os
HERE = os.path.dirname(os.path.dirname(os.path.abspath(__file__)))
ALL = ["C%02d" % i for i in range(1, 19)]
CHECKS = {}
def chk(pid, text, note, technique, design, thorough=True):
    CHECKS[pid] = dict(
        property_id=pid,
        quick_cmd="./vf check %s --tier quick" % pid,
        **({"thorough_cmd": "./vf check %s --tier thorough" % pid} if thorough else {}),
        evidence_file="/verif/evidence/%s.json" % pid,
        replay_cmd_template="./vf replay {path}",
        engine="symnp",
        level_claimed=dict(category="other", text=text, design_ref=design),
        level_note=note,
        technique=technique,
    )
exec(open(os.path.join(HERE, "tools", "checks_table.py")).read())
for _pid, _extra in EXTRA.items():
    CHECKS[_pid]["level_claimed"]["text"] += " " + _extra
NA_REASON = {}
exec(open(os.path.join(HERE, "tools", "na_table.py")).read())
m = dict(
    version=1,
    setup_cmd="sh ./setup.sh",
    hooks=dict(guard="MYGRAD_VERIF", enable="none needed: all substitutions are harness-side namespace patches (DESIGN §1.2); the guard name is reserved and unused by /repo",
               baseline_off_cmd="cd /repo && /venv/bin/python -m pytest -ra -q -p no:cacheprovider --timeout=900 --continue-on-collection-errors",
               source_commits=[], add_only=True),
    engines=[dict(name="symnp", path="/verif/symnp", serves_properties=sorted(CHECKS),
                  kind_free_text="own symbolic executor: z3-backed symbolic scalars inside dtype=object ndarrays run the real MyGrad/NumPy code; DFS over decision prefixes; UF abstraction + factored rational normal form; z3 5.1 with cvc5 1.4 as second solver; mpmath replay gate")],
    checks=[CHECKS[k] for k in sorted(CHECKS)],
    notes="exit 0 = held on everything explored; 1 = VIOLATION (replayed against the unpatched library); 2 = inconclusive / harness error (never success). "
          "No source hooks: hooks.source_commits is empty. Unguarded 'fix:' commits in /repo (genuine defects repaired, see known_findings.json 'fixed'): "
          "626e076, 72e75ad, 8a47948, ee89c5b, 80e896c, 91252f1, 0da08be, eff407b, 9489106, 8d60d8c, da7e02f, 6a6785e, 85d378c, 5fbfc44, 20fefd3, db50f89, b678f52, d08d915, 25f6d39, 4677ab0, c90e0b6, 269da67, bce5945, 1f81b16, 92d17d5, ae8a646, 0c14e61, 7b71b86, b46e25c, 230fafc, 9fea52e, 2a1095f, 65bf058, e5b2dc6, 9f8d1de, 1c950b4. Open known findings (printed as KNOWN-FINDING, exit 0): see known_findings.json 'findings'.",
    not_applicable=[dict(property_id=p, reason=NA_REASON.get(p, "check not built yet in this session (planned, see DESIGN §3)")) for p in ALL if p not in CHECKS],
)
json.dump(m, open(os.path.join(HERE, "MANIFEST.json"), "w"), indent=1)
print("checks:", sorted(CHECKS), "not_applicable:", [x["property_id"] for x in m["not_applicable"]])
