#!/bin/sh
# confirm a seeded change on /repo HEAD: patch applies, demo PASSes without and FAILs with it, named checks fire; always undoes the patch
S="$1"; shift
D=/verif/seeded/$S
git -C /repo status --short | grep -q . && { echo "/repo not clean"; exit 3; }
cd /tmp && PYTHONPATH=/repo/src /venv/bin/python $D/demo.py > /verif/.work/demo_$S.without 2>&1; echo "$S demo without patch: exit=$? ($(tail -1 /verif/.work/demo_$S.without))"
git -C /repo apply --check $D/patch.diff 2>/dev/null || { echo "$S patch does not apply to HEAD"; exit 4; }
git -C /repo apply $D/patch.diff
cd /tmp && PYTHONPATH=/repo/src /venv/bin/python $D/demo.py > /verif/.work/demo_$S.with 2>&1; echo "$S demo with patch: exit=$? ($(tail -1 /verif/.work/demo_$S.with))"
cd /verif
for id in "$@"; do
  VERIF_EVIDENCE_DIR=/verif/.work/ev_seed VERIF_REPLAY_CAP=16 ./vf check $id > /verif/.work/confirm_${S}_$id.log 2>&1
  echo "$S check $id: exit=$? violations=$(grep -c '^VIOLATION' /verif/.work/confirm_${S}_$id.log) :: $(grep -m1 -A1 '^VIOLATION' /verif/.work/confirm_${S}_$id.log | tail -1 | cut -c1-200)"
done
git -C /repo checkout -- .
git -C /repo status --short
