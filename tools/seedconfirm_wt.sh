#!/bin/sh
# confirm a seeded change in a scratch worktree of /repo HEAD (removed afterwards): demo PASSes on /repo and FAILs with the patch,
# the named checks are run against the worktree (VERIF_REPO); several of these can run side by side, /repo is never touched
# usage: tools/seedconfirm_wt.sh <seed-id> <check> [<check> ...]
S="$1"; shift
D=/verif/seeded/$S
W=/tmp/seedconfirm_$S
git -C /repo worktree remove --force $W 2>/dev/null
git -C /repo worktree add -q --detach $W HEAD || exit 3
cd /tmp && PYTHONPATH=/repo/src /venv/bin/python $D/demo.py > /verif/.work/demo_$S.without 2>&1; echo "$S demo without patch: exit=$? ($(tail -1 /verif/.work/demo_$S.without))"
git -C $W apply $D/patch.diff || { echo "$S patch does not apply to HEAD"; git -C /repo worktree remove --force $W; exit 4; }
cd /tmp && PYTHONPATH=$W/src /venv/bin/python $D/demo.py > /verif/.work/demo_$S.with 2>&1; echo "$S demo with patch: exit=$? ($(tail -1 /verif/.work/demo_$S.with))"
cd /verif
for id in "$@"; do
  VERIF_REPO=$W VERIF_EVIDENCE_DIR=/verif/.work/ev_seed_$S VERIF_REPLAY_CAP=16 VERIF_NPROC=${NPROC:-5} ./vf check $id > /verif/.work/confirm_${S}_$id.log 2>&1
  echo "$S check $id: exit=$? violations=$(grep -c '^VIOLATION' /verif/.work/confirm_${S}_$id.log) :: $(grep -m1 -A1 '^VIOLATION' /verif/.work/confirm_${S}_$id.log | tail -1 | cut -c1-200)"
done
rm -rf /verif/.work/ev_seed_$S
cd /; git -C /repo worktree remove --force $W; git -C /repo worktree prune
