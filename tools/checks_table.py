chk("C02",
    "Bounded symbolic execution of every differentiable operation's real forward and backward code on object arrays of "
    "symbolic reals; on each feasible path z3 (cvc5 on unknown) decides, for ALL real inputs of the stated shapes, that every "
    "gradient element equals the reference derivative of the forward term produced by the same run; tie/kink paths carry only "
    "the documented conventions. Bounded by operand shapes (<=12 elements) and the enumerated option combinations.",
    "Trusted: own ~150-line differentiator (validated each run), UF abstraction with algebraic side conditions (unsat sound, sat "
    "replayed with mpmath + real library), NumPy's object loops, the np proxy substitutions listed in the evidence; real "
    "arithmetic (no rounding/NaN); numba kernels run as .py_func.",
    "symbolic execution of real code + SMT equivalence (z3/cvc5) against symbolic reference derivative", "DESIGN §3 C02, App. B")
chk("C01",
    "Programs are the enumerated input: every DAG over k<=3 leaves and n<=3 (thorough 4) binary +,* nodes with constant-flag "
    "patterns, a 3-ary sequence-op variant, swapped operands and a second statement order, plus every well-typed straight-line "
    "program of depth <=2 (thorough 3) over a 25-template alphabet of differentiable ops. Inside each program all data are "
    "symbolic and z3 decides, for all real inputs, that each leaf's and each intermediate tensor's .grad equals d(sum L)/dx "
    "from the reference differentiator (cut variables for intermediates); constants and tensors L does not depend on must have grad None.",
    "Trusted: reference differentiator, UF abstraction, np proxy substitutions (listed in evidence). Programs beyond the bound are "
    "covered only by the paper argument (per-op VJP from C02 + traversal correctness). Tie regions of maximum/max are not explored here.",
    "exhaustive program enumeration + symbolic execution of real code + SMT equivalence per program", "DESIGN §3 C01")
chk("C16",
    "(a) the real sliding_window_view runs on symbolic UNBOUNDED integers (shape, window, step, dilation; ranks: 0-2 leading, 1-2 "
    "[thorough 3] windowed dims, tuple/scalar/None argument forms); per path z3 discharges: accepted <=> W,S,D>=1 & W<=x & W*D<=x, "
    "read-only, output shape, byte-offset map out[g,n,w] = arr[n, g*S+w*D], in-bounds, greedy maximality. (b) the real validation "
    "prefixes of ConvND/MaxPoolND on symbolic integers composed with (a): accepted => valid, valid => accepted (known finding F3 "
    "for dilated conv is split off by its arithmetic signature). (c) forward terms of conv_nd (every 1-D configuration in a box, "
    "listed 2-D), max_pool, batchnorm, softmax, logsoftmax, gru (T=2; and with a symbolic non-zero initial state) and the six losses on symbolic reals vs naive nested-loop "
    "evaluation of the documented formula (z3 equality), invalid configurations must raise.",
    "Trusted: as_strided (recorded, not executed, in the integer lane), fake C-contiguous array model with itemsize 8, NumPy "
    "object loops, the naive formulas written in the harness, numba kernels as .py_func. Per fixed rank; induction over rank not made.",
    "symbolic execution on unbounded z3 integers (inductive-style obligations) + SMT equivalence with naive formulas", "DESIGN §3 C16")
chk("C15",
    "(a) one inductive step, unbounded depth: the real ContextTracker.__enter__/__exit__/__call__ of no_autodiff, mem_guard_off and "
    "mem_guard_on run with `_depth` a symbolic unbounded integer and `_depth_tracker` a z3 array under the invariant keys=[0,depth); "
    "z3 discharges frame (enter writes only key depth, exit pops only key depth-1), restore (enter;exit returns switch, depth and "
    "tracker to the pre-state) and decorator (body runs inside, exit executed when the body raises) obligations; the induction over "
    "well-nested sequences is on paper and cross-checked by executing every well-nested forest of <=3 (thorough 4) scopes with an "
    "exception at each position. (b) 18 programs (views, in-place, out=, shape assignment) inside no_autodiff, alone and with mem_guard_on / "
    "mem_guard_off nested inside or around it; backward() called inside no_autodiff on every tensor of a graph recorded outside must change nothing: z3 decides the values "
    "equal the tracked run for all real inputs; creator/base/_ops/grads/locks/array identity observed per path.",
    "Trusted: z3 array theory + quantified invariant; well-nested use (no generators suspended in a scope, no threads); dtype equality "
    "is left to the dtype lane of C03.",
    "symbolic execution at unbounded symbolic depth (inductive step obligations to z3) + bounded exhaustive nesting + SMT value equivalence",
    "DESIGN §3 C15")
chk("C04",
    "Histories are the enumerated input: every well-typed program of <=3 statements (thorough: + strided 4-statement programs with "
    ">=2 in-place statements) over view / non-view / in-place templates (item assignment incl. advanced, boolean and self-overlapping "
    "indices, augmented assignment, ufunc out= with where=, .shape assignment) from a base of shape (6,) or (2,3), C-ordered or not; plus a "
    "4-statement family (two views, .shape assigned, one update) and a constant-flag family (constant / non-constant base, views created with an "
    "explicit constant=, one in-place statement on any member). Data are symbolic and "
    "pairwise distinct; after EVERY statement all live tensors are compared with the NumPy twin (same source lines, mg. -> np., on "
    "object ndarrays): element terms by z3, np.shares_memory for all pairs, .base identity, id(t), constant flag.",
    "Trusted: NumPy executing the mutations of the twin; 0-d tensors correspond to 0-d arrays (NumPy scalars are wrapped); literal "
    "scalars are 0-d symbolic constants. One graph epoch only. Histories beyond the bound are outside.",
    "exhaustive history enumeration + symbolic execution of real code, differential against NumPy twin, SMT value equality", "DESIGN §3 C04")
chk("C05",
    "Same program grammar as C04 (<=2 statements quick, <=3 thorough, >=1 in-place) extended with reads of every live name before the "
    "first mutation and at the end; L = sum of the reads; backward(). z3 decides for all real inputs that the .grad of every live "
    "tensor (leaves feeding assignments, views, mutated bases, intermediates) equals the derivative of the NumPy twin's L - an oracle "
    "that never runs MyGrad: overwritten elements simply no longer occur in the twin's term; for mutated tensors fresh cut variables "
    "are written in place into the twin right after the last mutation of their memory owner. Operation sweep: every C02 operation body, "
    "one operand (or the intermediate `+operand` it consumes) updated in place AFTER the forward call, then backward(): all remaining "
    "gradients must be those of the forward pass as computed (recurrent layer: first 3 paths of T=1; T=2 thorough); likewise every "
    "integer/boolean auxiliary array of those bodies (indices, masks, conditions, labels) passed as a Tensor and assigned to afterwards.",
    "Trusted: reference differentiator; version rule 'a tensor's current value is the one after the last in-place statement whose "
    "target shares its memory (or .shape assignment to its memory owner)', which is the reading under which C06 (view grad = view of "
    "base grad) and C05 are jointly satisfiable.",
    "exhaustive program enumeration + symbolic execution + SMT equivalence against derivative of functional NumPy twin", "DESIGN §3 C05")
chk("C09",
    "Histories are the enumerated input: 6 graph shapes in which L shares a leaf, a view, an intermediate or a constant tensor with a second result "
    "(which may itself go through a view of the shared tensor), raw memory writes that the guard must refuse among the events, times "
    "every sequence of <=3 events (thorough: + strided 4-event sequences) from {backward / clear_graph on the other result, in-place "
    "update of the shared tensor or of a view of it, re-use of a shared tensor in a new op or view, null_grad}, then L.backward(). "
    "Data are symbolic; the outcome must be InvalidBackprop or, decided by z3 for all real inputs, every gradient equals the "
    "derivative of the computation as recorded (NumPy-twin oracle with cut variables, as C05). Known finding F1/F7 is keyed by the "
    "history pattern clear -> re-use and printed as KNOWN-FINDING; any other silent wrong gradient is a VIOLATION.",
    "Trusted: reference differentiator, NumPy twin. Histories beyond the bound and more than three graphs are outside.",
    "exhaustive history enumeration + symbolic execution + SMT equivalence against recorded forward term", "DESIGN §3 C09")
chk("C06",
    "Programs are the enumerated input: bases (6,), (2,3), (3,3), (2,1,3), C-ordered or not; readers that are products or matmul-type ops; a "
    "two-epoch family (a view left from a back-propagated graph becomes the base of new views); every legal chain of <=2 (thorough: + strided length-3) view ops out of "
    "15 (slices, strides, integer index, newaxis, T, reshape, swapaxes, moveaxis, expand_dims, squeeze, diagonal einsum); every ordered "
    "selection of <=3 readers among base and views, i.e. every order in which gradient contributions arrive; optional second pass on the "
    "base. Per program (symbolic data): v.grad is available iff b.grad is, its terms equal the view chain re-applied to b.grad (z3), "
    "np.shares_memory(v.grad, b.grad), a write-through probe with fresh symbols, no aliasing between gradients of non-sharing tensors, "
    "and gradients read None once the base is re-used.",
    "Trusted: NumPy's view functions re-applied by the harness to the gradient array. Epochs beyond two are outside.",
    "exhaustive program/schedule enumeration + symbolic execution + SMT term equality and aliasing probes", "DESIGN §3 C06")
chk("C07",
    "18 step programs (three with view chains L does not consume around an in-place update) x 9 between-iteration actions x 2 (thorough 3) forward/backward iterations, every feasible path with symbolic "
    "data. Solver part: the gradient terms of every later iteration are structurally identical (same unsimplified term DAG, i.e. the "
    "same operation sequence on the same operands, hence bit-identical floats) to those of iteration 0, and z3 refutes any value "
    "difference (accumulation). Observed on every path with the cyclic GC disabled: L and every tensor upstream of it has no creator "
    "and no consumers after backward(); every intermediate tensor, Operation and placeholder is dead by reference counting alone once "
    "the caller drops its names; leaf gradients persist until non-view re-use / in-place update / next backward and then read None, "
    "also through views.",
    "Trusted: CPython reference counting is observed, not encoded; weak references are taken by harness-side wrappers of "
    "Tensor.__init__/Operation.__init__. Strength: exhaustive over the listed programs, not over all programs.",
    "symbolic execution + structural term identity and SMT value equality across iterations; concrete heap observation per path", "DESIGN §3 C07")
chk("C13",
    "Fault injection by enumeration: C04-grammar programs (<=2 statements, thorough + strided 3) with consumers; one failing statement "
    "of each of 20 kinds (integer result forced non-constant - refused after the forward pass -, Python scalar overflowing a small integer dtype, shape-incompatible op, bad axis / index / advanced index / reshape / transpose / einsum / matmul / concatenate, "
    "failing item- and augmented assignment on a base or a view, wrong out=, wrong where= shape, bad .shape, natively read-only target) "
    "inserted at every position. Differential within one run on identical symbols: with vs. without the failing statement; right after "
    "the failure and at the end every live tensor's data terms, constant flag, base, creator/consumer counts, view children, memory-"
    "sharing pattern, array writeability and the lock-table size must be identical; z3 decides that final values and all gradients agree.",
    "Trusted: the same-run differential (both executions share the symbols); failures inside backward() are outside. Quick keeps every "
    "third (program, position, kind) triple.",
    "fault-point enumeration + symbolic execution + differential SMT equality", "DESIGN §3 C13")
chk("C14",
    "Seeding: 11 terminal tensors (shapes (), (1,), (2,), (3,), (1,3), (2,1), (2,3), (2,1,3), a transposed view and a 0-d view) x 8 accepted "
    "seed kinds (none, Python scalar, 0-d, same-shape, two broadcastable shapes, Tensor, constant Tensor, nested list) with SYMBOLIC seed "
    "values: z3 decides for all inputs and seeds that L.backward() == L.sum().backward() and L.backward(g) == (L*g).sum().backward() "
    "leaf by leaf; 4 non-broadcastable seeds (longer axis, extra leading axis, enlarging a size-1 axis, wrong length) must raise "
    "ValueError and leave every .grad None. Type/shape: every stored gradient on every path of every C02 case (all ops, 0-d, layers, "
    "gru) is an ndarray of exactly the tensor's shape. Dtype: every C02 case body with float16/32/64 leaves in the dtype lane.",
    "The dtype lane is degenerate symbolic execution (all variables are selectors, no solver): it relies on NEP 50 (result dtypes do not "
    "depend on values). Known finding: gru's output tensor reads a gradient of shape (T,N,D).",
    "symbolic execution + SMT equivalence of two formulations with symbolic seeds; enumeration for type/shape/dtype facts", "DESIGN §3 C14")
chk("C10",
    "Leaf constant flags are SYMBOLIC booleans: leaves are instances of a harness-side Tensor subclass whose `constant` property forks; the "
    "untouched library decides each flag where it reads it (Tensor._op inference, Operation.backward skip, Tensor.backward early exit, copy "
    "inside _in_place_op), so every flag assignment it distinguishes is a path of 23 programs and of every C02 operation body without an in-place "
    "statement (sweep: result constant iff no operand is a non-constant tensor, also with bare-array and constant-tensor operands; "
    "constants never acquire .grad); programs (views, set-item, augmented assignment, "
    "out=/where=, reductions, matmul, einsum, where, concatenate, constant=True/False on functions and methods). Per path: result and "
    "intermediate flags follow the documented rule (all-inputs-constant unless overridden; in-place target keeps its flag), constants "
    "have grad None, and z3 decides for all real inputs that the other gradients equal the reference derivative with constants held "
    "fixed AND the gradients of the same program with every constant tensor replaced by a bare ndarray. Dtype rules (int/bool always "
    "constant, constant=False raises, float default, non-bool flag rejected) on concrete tensors.",
    "Trusted: reference differentiator; hand-written expected-flag rule per program; one generic rule for the sweep.",
    "symbolic execution with symbolic boolean flags (path per flag assignment) + SMT gradient equivalence against two oracles", "DESIGN §3 C10")
chk("C12",
    "Driver = every C02 case (all differentiable operations and option combinations, incl. the hand-written backward()s of GRU, sequence "
    "ops, focal loss, einsum) plus 15 aliasing-prone programs and 16 masked ufunc calls with same-shape operands; each body also runs with all "
    "leaf elements 0 and all 1 (degenerate points excluded by the gradient checks' domain assumptions). On every feasible path with symbolic data (each element a distinct term): "
    "the arrays tensors were built from, caller-owned constant arrays, index and mask objects, every input tensor's data and the symbolic "
    "seed handed to backward(g) are unchanged after the forward call and after backward (explicit out= targets exempt); backward never "
    "changes any tensor's data; gradient arrays of tensors that do not share memory do not share memory; a write probe (fresh symbols "
    "written in place into each .grad) leaves every non-sharing .grad, every .data and the seed untouched.",
    "Mostly structural observation per path (term identity); the solver role is marginal here and the claim is bounded by the C02 "
    "configuration set. Object arrays stand for float arrays; dtype-dependent copies (astype to another dtype) are outside.",
    "symbolic execution with per-element distinct terms; term-identity snapshots and in-place write probes on every path", "DESIGN §3 C12")
chk("C03",
    "Value/shape lane (solver): ~330 call templates - every differentiable function with a NumPy namesake, Tensor methods, operators "
    "(incl. reflected and builtin abs), NumPy functions/ufuncs applied to tensors - over operands of shape (2,3), (3,), 0-d, empty (0,3) "
    "and non-contiguous, with axis/keepdims/ddof/where/out options: the same source is evaluated with F = mygrad on Tensors (tracking "
    "on and inside no_autodiff) and F = numpy on the SAME symbolic object arrays; shapes must agree and z3 decides for all real inputs "
    "that every element agrees. Dtype lane (no solver): operand kinds {Python bool/int/float, 0-d array, array, Tensor} x dtypes {bool, "
    "int8, int64, float16, float32, float64} x unary/binary/sequential/manipulation/linalg functions and operators, result dtype and "
    "shape equal NumPy's on concrete arrays, tracked and untracked.",
    "Value lane trusts NumPy's object loops as the model of its float loops (real arithmetic). Dtype lane relies on NEP 50 (dtypes do "
    "not depend on values). Known finding: the x**1 / x**2 shortcut on int/bool tensors with float/bool exponents.",
    "symbolic execution differential against NumPy on shared symbolic arrays + SMT equality; enumeration for dtype facts", "DESIGN §3 C03")
chk("C11",
    "One case per entry of the ufunc registry (37, read at run time) and per listed NumPy override (29): all spellings of the operation - "
    "mygrad function, NumPy function/ufunc applied to tensors, Tensor method, operator incl. reflected and augmented forms, out=Tensor, "
    "where=+out=, Python-scalar operand, pow special cases - run on the same symbolic operands; shapes and constant flags must agree and "
    "z3 decides for all real inputs and all seeds that result terms and operand gradients after backward(g) agree. The non-differentiable "
    "registries are executed directly: boolean ufuncs / no-diff functions / comparison operators return plain arrays equal to NumPy's and "
    "record nothing; every const-only (rounding/modulo) ufunc raises ValueError on any non-constant operand and matches NumPy on constants.",
    "dtype equality across spellings is compared with floats in the replay and in C03's dtype lane; reduce/accumulate/outer ufunc methods are outside.",
    "symbolic execution of all spellings on shared symbolic operands + SMT equality of values and gradients", "DESIGN §3 C11")
chk("C17",
    "Symbolic part: `ndmin` is a symbolic integer in [-1,4] for tensor()/Tensor()/astensor() over 7 source kinds x copy - the library's own "
    "comparisons on ndmin fork in the engine and every path is compared with numpy.array(..., ndmin=k); data are symbolic and an aliasing "
    "probe writes fresh symbols into the source, deciding by term identity whether the result saw them (copy by default; copy=False / "
    "astensor reuse memory; astensor(t) is t with graph and gradient intact). Enumeration part, on the unpatched library: makers {tensor, "
    "Tensor, astensor, asarray} x sources (arrays incl. transposed / strided / F-ordered, tensors, lists, scalars, array.array, memoryview, an object with __array__) x copy x dtype {None, same, other} x constant (dtype, memory sharing, write-through, pass-through "
    "identity); copy()/astype() detached, independent and value-equal; ~600 creation-routine calls (zeros, ones, empty, full, *_like, arange, "
    "linspace, logspace, geomspace, eye, identity) equal to NumPy in value, shape and dtype with the documented float32 default; non-real "
    "dtypes rejected while tracking and accepted inside no_autodiff.",
    "As DESIGN states, this property is mostly configuration enumeration; the solver-family part is the symbolic ndmin and the symbolic aliasing probe.",
    "symbolic execution with symbolic integer option + term-identity aliasing probe; configuration enumeration for dtype/identity facts", "DESIGN §3 C17")
chk("C18",
    "Logic lane (symbolic): the real _io.save/_io.load run on 13 kinds of tensors with symbolic data (with/without gradient, views "
    "carrying a view-gradient, constants, 0-d, empty, non-contiguous, attached to a graph, nulled gradient, gradient from a seeded "
    "non-scalar backward) while numpy.savez/numpy.load are replaced by a contract stub (in-memory store returning equal copies): loaded "
    "data and gradient terms equal the originals (term identity / z3), None is preserved, save leaves data, gradient, creator and "
    "consumers untouched, the loaded tensor is detached and owns its memory. Real-file lane (no solver): the same kinds x {bool, int8, "
    "int64, float16, float32, float64} x {path, path.npz, BytesIO}: value, shape, dtype and gradient dtype round-trip through actual files.",
    "The .npz format (NumPy/zipfile C and I/O code) is trusted: stubbed by its documented contract in the logic lane, executed for real in the file lane.",
    "symbolic execution with environment stub (savez/load contract) + term identity; real-file enumeration for dtype facts", "DESIGN §3 C18")
chk("C08",
    "(a) one inductive step of the lock manager: the real lock_arr_writeability / _release_lock_on_arr_writeability run from a SYMBOLIC "
    "pre-state over the universe {base B, view V of B, stand-alone S, array F over a foreign buffer (its .base is not an array)}: counters are unbounded symbolic integers, tracker membership, "
    "writeable flags and the waiting set are symbolic booleans (the code's `is True`/`is False` tests fork), constrained by a "
    "representation invariant; z3 discharges for {lock, force-lock, release} x {B, V, S} that the invariant is preserved, other arrays' "
    "counters are untouched, a locked array is read-only, a natively read-only array is left alone, release decrements and, at zero, "
    "restores the flag / parks a view on its read-only base / frees a waiting idle view. (a') one whole operation (lock its arrays owner-first, then "
    "release them) from a symbolic pre-state in which other operations hold any of them: z3 must refute 'an array nobody else holds ends with a flag "
    "different from the one it had'; its counterexamples (the two flag combinations of the open known findings) are mapped to Tensor-level "
    "histories and reported only if those reproduce. (b) Tensor-level histories, enumerated, concrete "
    "flags: <=2 (thorough 3) of 15 graph-creating statements (user array, natively read-only array, NumPy view, view taken while locked, "
    "out= target, out= views of one buffer, matmul, tensor sharing a user array, read-only view of a writeable owner, writeable view of a read-only "
    "owner, array over a foreign buffer, in-place updates through a dropped view / out= temporaries / the tensor itself), one backward / clear_graph / del / failing op at every position, then every "
    "release order by del or clear_graph; after every statement and at quiescence (cyclic GC off) flags are compared with a 3-valued "
    "specification from a reference model of graph liveness that never looks at the lock tables; lock tables must be empty at the end. "
    "(c) auxiliary arrays (index arrays, where= masks, conditions, label arrays) of every C02 operation body, written to by the caller after "
    "the forward call inside try/except ValueError: the guard refuses the write, or z3 shows for all operand values that the gradients are "
    "those of the forward pass as computed (open known finding: they are neither locked nor copied).",
    "(a) is per fixed universe; the induction over histories is on paper and a step counterexample is never reported without a "
    "reproducing history of (b). (b) is enumeration, not a solver verdict. Arrays whose .base is neither an ndarray nor a buffer exporter "
    "(as_strided) are outside.",
    "symbolic execution from a symbolic pre-state under a representation invariant (inductive step, z3) + exhaustive concrete histories against a liveness model",
    "DESIGN §3 C08, App. A")

# families added after the sixth wave of seeded changes (appended to the level texts above)
EXTRA = {
    "C03": "Calls with a tensor-valued where= mask are part of the value lane.",
    "C04": "Maybe-view family: ravel / reshape / squeeze / expand_dims / moveaxis / atleast_2d / transpose / roll / repeat applied to the base or "
           "to a strided, reversed, transposed or column view of it, then one in-place statement on any member (NumPy decides view-or-copy).",
    "C06": "perm3 family: a (3, 2, 2) base whose axes were permuted (neither C- nor F-ordered), first contribution through a weight of another "
           "axis order or through the views, views that need the data's layout.",
    "C07": "Stale-view family: after another backward pass through the base a caller-held view reads None or the view of the new gradient; "
           "the same for views of a C-/F-ordered weight of the recurrent layer (concrete lane on the unpatched library).",
    "C09": "constout family: the shared tensor is updated through out= with an explicit constant= (either way).",
    "C11": "Spelling families with axes given from the end, mixed-sign permutations (2-d, 3-d) and reduction options passed to methods "
           "positionally and by keyword.",
    "C12": "Default-seed family: the seeds MyGrad makes up for several terminals must not be shared.",
    "C13": "After-backward family: every view program, backward(), then a failing statement (9 kinds incl. views refused after the forward "
           "pass) on each tensor: gradients, bases, consumers and values identical to the run without it, also after a further backward pass. "
           "Two-step functions failing in their second step on a dtype.",
    "C14": "Seeds with extra leading length-1 axes (contiguous and strided) on contiguous, transposed, F-ordered and strided terminals.",
    "C15": "Shapes that need a copy are refused inside no_autodiff as with tracking, and the view keeps writing through.",
    "C16": "Integer lane (concrete, unpatched library): softmax, logsoftmax, softmax_crossentropy on int8/uint8/int16/int64/bool inputs at the ends "
           "of their ranges against the same call on float64 (machine integers wrap; the symbolic lanes compute over the reals).",
    "C17": "linspace/logspace/geomspace with array-like end points, axis and base; timedelta64, bytes and structured data at the dtype gate.",
}
