chk("C02",
    "Bounded symbolic execution of every differentiable operation's real forward and backward code on object arrays of "
    "symbolic reals; on each feasible path z3 (cvc5 on unknown) decides, for ALL real inputs of the stated shapes, that every "
    "gradient element equals the reference derivative of the forward term produced by the same run; tie/kink paths carry only "
    "the documented conventions. Bounded by operand shapes (<=12 elements) and the enumerated option combinations.",
    "Trusted: own ~150-line differentiator (validated each run), UF abstraction with algebraic side conditions (unsat sound, sat "
    "replayed with mpmath + real library), NumPy's object loops, the np proxy substitutions listed in the evidence; real "
    "arithmetic (no rounding/NaN); numba kernels run as .py_func.",
    "symbolic execution of real code + SMT equivalence (z3/cvc5) against symbolic reference derivative", "DESIGN §3 C02, App. B")
