#!/bin/sh
# official route: apply a seeded patch to /repo, run the given quick checks, undo straight afterwards.
# usage: tools/seedrun.sh <patch.diff> <out-file> <ids...>
PATCH="$1"; OUT="$2"; shift 2
git -C /repo status --short | grep -q . && { echo "/repo not clean"; exit 3; }
git -C /repo apply "$PATCH" || { echo "patch does not apply"; exit 3; }
: > "$OUT"
for id in "$@"; do
  VERIF_EVIDENCE_DIR=/verif/.work/ev_seed VERIF_REPLAY_CAP=6 ./vf check $id > /verif/.work/seedrun_$id.log 2>&1
  rc=$?
  echo "$id exit=$rc violations=$(grep -c '^VIOLATION' /verif/.work/seedrun_$id.log) :: $(grep -m1 -A1 '^VIOLATION' /verif/.work/seedrun_$id.log | tail -1 | cut -c1-220)" >> "$OUT"
done
git -C /repo checkout -- .
git -C /repo status --short
