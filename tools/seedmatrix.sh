#!/bin/sh
# usage: tools/seedmatrix.sh <worktree-with-change> <out-file> [check ids...]   (exploration: uses VERIF_REPO, does not touch /repo)
WT="$1"; OUT="$2"; shift 2
IDS="$@"; [ -z "$IDS" ] && IDS="C01 C02 C03 C04 C05 C06 C07 C08 C09 C10 C11 C12 C13 C14 C15 C16 C17 C18"
: > "$OUT"
for id in $IDS; do
  VERIF_REPO="$WT" VERIF_EVIDENCE_DIR=/verif/.work/ev_seed VERIF_REPLAY_CAP=4 ./vf check $id > /verif/.work/seed_$id.log 2>&1
  rc=$?
  nv=$(grep -c "^VIOLATION" /verif/.work/seed_$id.log)
  echo "$id exit=$rc violations=$nv $(grep -m1 -A1 '^VIOLATION' /verif/.work/seed_$id.log | tail -1 | cut -c1-200)" >> "$OUT"
done
