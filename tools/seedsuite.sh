#!/bin/sh
# run MyGrad's own test suite with a seeded change applied, in a scratch worktree under /tmp (removed afterwards)
# usage: tools/seedsuite.sh <seed-id> [base-commit]
S="$1"; BASE="${2:-HEAD}"
W=/tmp/seedsuite_$S
git -C /repo worktree remove --force $W 2>/dev/null
git -C /repo worktree add -q --detach $W $BASE || exit 3
git -C $W apply /verif/seeded/$S/patch.diff || { echo "$S: patch does not apply on $BASE"; git -C /repo worktree remove --force $W; exit 4; }
cd $W && PYTHONPATH=$W/src /venv/bin/python -m pytest -q -p no:cacheprovider -n ${NPROC:-12} --timeout=1200 --deselect tests/test_version.py tests > /verif/.work/suite_$S.log 2>&1
rc=$?
if [ $rc -ne 0 ]; then
  # hypothesis deadline flakes under load: re-run the failed tests serially
  F=$(grep '^FAILED' /verif/.work/suite_$S.log | sed 's/^FAILED //; s/ - .*//' | tr '\n' ' ')
  if [ -n "$F" ]; then
    PYTHONPATH=$W/src /venv/bin/python -m pytest -q -p no:cacheprovider --timeout=1200 $F > /verif/.work/suite_${S}_rerun.log 2>&1; rc=$?
    echo "$S rerun of failed: rc=$rc $(tail -1 /verif/.work/suite_${S}_rerun.log)"
  fi
fi
echo "$S suite on $BASE: rc=$rc $(tail -1 /verif/.work/suite_$S.log)"
cd /; git -C /repo worktree remove --force $W; git -C /repo worktree prune
