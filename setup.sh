#!/bin/sh
# builds the overlay venv (offline): /venv's packages + solver wheels from the local wheelhouse
set -e
HERE="$(cd "$(dirname "$0")" && pwd)"
if [ ! -x "$HERE/.venv/bin/python" ]; then
  /venv/bin/python -m venv "$HERE/.venv"
fi
SP="$HERE/.venv/lib/python3.12/site-packages"
echo "import site; site.addsitedir('/venv/lib/python3.12/site-packages')" > "$SP/_overlay.pth"
"$HERE/.venv/bin/python" -c "import z3, cvc5, mpmath, crosshair" 2>/dev/null || \
  PIP_NO_INDEX=1 "$HERE/.venv/bin/pip" install --no-index --find-links /opt/veriftools/wheels z3-solver crosshair-tool cvc5 mpmath
"$HERE/.venv/bin/python" -c "import z3, cvc5, mpmath, numpy; print('setup ok', z3.get_version_string())"
