"""CrossHair contracts over the REAL pure-Python label helpers used by EinSum.backward_var (imported from /repo/src).

Run:  crosshair check --report_all --per_condition_timeout 40 crosshair_specs/einsum_helpers.py
Symbolic str inputs are bounded by len <= 4 (stated bound); CrossHair explores paths with z3.
"""
from typing import Dict, List

from mygrad.linalg.ops import _get_indices, _merge_max_mappings, _unique_from_end


def unique_from_end_is_duplicate_free_subset(s: str) -> str:
    """
    pre: len(s) <= 4
    post: len(set(_)) == len(_)
    post: set(_) == set(s)
    post: all(_.index(c) < _.index(d) for c in _ for d in _ if s.rindex(c) < s.rindex(d))
    """
    return _unique_from_end(s)


def unique_from_end_keeps_last_occurrences(s: str) -> str:
    """
    pre: len(s) <= 4
    post: _ == "".join(c for i, c in enumerate(s) if c not in s[i + 1:])
    """
    return _unique_from_end(s)


def unique_from_end_idempotent(s: str) -> str:
    """
    pre: len(s) <= 4
    post: _ == _unique_from_end(s)
    """
    return _unique_from_end(_unique_from_end(s))


def merge_max_takes_the_maximum(x0: int, x1: int, y1: int, y2: int, z0: int) -> Dict[str, int]:
    """
    pre: min(x0, x1, y1, y2, z0) > 0
    post: _ == {"i": max(x0, z0), "j": max(x1, y1), "k": y2}
    """
    # fixed label sets (as in an einsum spec), symbolic unbounded sizes
    return _merge_max_mappings({"i": x0, "j": x1}, {"j": y1, "k": y2}, {"i": z0})


def get_indices_are_exactly_the_occurrences(item: str, seq: str) -> List[int]:
    """
    pre: len(item) == 1 and len(seq) <= 4
    post: _ == [i for i in range(len(seq)) if seq[i] == item]
    """
    return list(_get_indices(item, seq))
